// Package w8 is the file pool world (property C15): the real
// BlockDeviceBackedFilePool + BitmapSectorAllocator + QuotaEnforcingFilePool on
// top of a fake block device, fake hole sources, a fault-injecting sector
// allocator wrapper and a fault-injecting base pool wrapper.
//
// One run (= one seed) generates one workload and executes it many times on
// fresh instances of the system ("passes"):
//
//	gen        fault-free, sequential, operations generated adaptively
//	enum       once per (seam call k, fault option) of the gen pass: the same
//	           operations with exactly that one fault  (fault enumeration)
//	actors     two kernel-scheduled actors owning disjoint files, interleaved at
//	           every device / hole source / allocator / lock call, fault-free
//	actors+f   the same with random faults chosen by the controller
//	random     sequential with several random faults
//
// Every pass checks every result against a byte-array model and ends with the
// conservation sweep (everything closed => the whole device can be allocated
// again, the quota is back at its limits).
package w8

import (
	"fmt"
	"hash/fnv"
	"strings"

	"github.com/buildbarn/bb-remote-execution/pkg/filesystem/pool"
	"github.com/buildbarn/bb-remote-execution/pkg/verifsim/simrun"
	"github.com/buildbarn/bb-remote-execution/pkg/verifsim/simsync"
	"github.com/buildbarn/bb-storage/pkg/filesystem"
)

type config struct {
	ss       int // sector size in bytes
	nsec     int // sectors on the device
	maxFiles uint64
	maxBytes uint64
	frag     int // 0: allocator as is; 1: one sector per allocation; 2: 1..3 sectors per allocation
	eofAtEnd bool
	nslots   int
	nops     int
	maxOff   int64
}

type world struct {
	r   *simrun.Run
	k   *simsync.Kernel
	t   *simsync.Tape
	cfg config

	ops      []*op
	queued   []*op    // follow-up operations the generator has decided on already
	seamOpts []int    // per seam call of the gen pass: number of fault options
	seamLbls []string // and its label
	passes   int
	// Aggregates for the non-triviality rule.
	genVerifiedFiles int
	enumPasses       int
	sweeps           int
}

const (
	modePlan = iota
	modeRandom
	modeActors
)

// pass is one execution of the workload on a fresh system.
type pass struct {
	w    *world
	name string
	mode int

	dev   *fakeDevice
	alloc *trackingAllocator
	qpool pool.FilePool

	slots []*fileModel
	gens  int

	seq    *opCtx
	actors []*opCtx
	ctxs   []*opCtx
	byName map[string]*opCtx

	// seams
	seamCount int
	record    bool
	planAt    int
	planOpt   int
	planDesc  string
	budget    int
	rate      int
	weight    int

	maxFiles uint64 // quota limits of this pass's pool
	maxBytes uint64
	atomic   bool // actors also interleave at individual sync/atomic operations

	suspect       int64 // bytes reserved by NewFile calls that failed in the base pool, release not yet confirmed
	opsDone       int
	failedOps     int
	filesCreated  int
	filesClosed   int
	filesVerified int
}

func (w *world) newPass(name string, mode int) *pass {
	return w.newPassQ(name, mode, 2, w.cfg.nslots, w.cfg.maxFiles, w.cfg.maxBytes)
}

// newPassQ builds a fresh system with its own number of actors and slots and
// its own quota limits.
func (w *world) newPassQ(name string, mode, nactors, nslots int, maxFiles, maxBytes uint64) *pass {
	w.passes++
	p := &pass{w: w, name: name, mode: mode, planAt: -1, byName: map[string]*opCtx{}, maxFiles: maxFiles, maxBytes: maxBytes}
	cfg := &w.cfg
	p.dev = newFakeDevice(p, cfg.ss*cfg.nsec, cfg.eofAtEnd)
	p.alloc = &trackingAllocator{p: p, base: pool.NewBitmapSectorAllocator(uint32(cfg.nsec)), out: map[uint32]int32{}}
	bd := pool.NewBlockDeviceBackedFilePool(p.dev, p.alloc, cfg.ss)
	p.qpool = pool.NewQuotaEnforcingFilePool(&faultyPool{p: p, base: bd}, maxFiles, maxBytes)
	p.slots = make([]*fileModel, nslots)
	p.seq = &opCtx{p: p, name: "ctl", fileGen: -1}
	p.ctxs = []*opCtx{p.seq}
	if mode == modeActors {
		for a := 0; a < nactors; a++ {
			c := &opCtx{p: p, name: fmt.Sprintf("%s-actor%d", name, a), fileGen: -1}
			p.actors = append(p.actors, c)
			p.ctxs = append(p.ctxs, c)
			p.byName[c.name] = c
		}
	}
	return p
}

func (p *pass) violate(rule, msg string) {
	where := "pass " + p.name
	if p.planDesc != "" {
		where += " (single fault: " + p.planDesc + ")"
	}
	p.w.k.Violate(rule, where+": "+msg)
}

// ctx returns the operation context of the calling goroutine.
func (p *pass) ctx() *opCtx {
	if p.mode != modeActors || p.w.k.IsController() {
		return p.seq
	}
	c := p.byName[p.w.k.Me().Name]
	if c == nil {
		panic(simsync.HarnessError{Msg: "seam called by unknown actor " + p.w.k.Me().Name})
	}
	return c
}

// owner returns the context that executes the operations of a slot.
func (p *pass) owner(slot int) *opCtx {
	if p.mode != modeActors {
		return p.seq
	}
	return p.actors[slot%len(p.actors)]
}

// seam is called by every fake at every call from the code under test.
func (p *pass) seam(label string, opts ...string) int {
	c := p.ctx()
	if c.suspend > 0 {
		return 0
	}
	k := p.w.k
	fire := func(o int) int {
		k.FaultsFired[opts[o]]++
		c.excuse(opts[o])
		return o
	}
	switch p.mode {
	case modePlan:
		idx := p.seamCount
		p.seamCount++
		if p.record {
			p.w.seamOpts = append(p.w.seamOpts, len(opts)-1)
			p.w.seamLbls = append(p.w.seamLbls, label)
		}
		if idx == p.planAt {
			if p.planOpt >= len(opts) {
				panic(simsync.HarnessError{Msg: fmt.Sprintf("pass %s: seam call %d is %s with %d options, plan wants option %d of %s", p.name, idx, label, len(opts), p.planOpt, p.planDesc)})
			}
			k.Annotate("%s seam#%d %s -> FAULT %s", p.name, idx, label, opts[p.planOpt])
			return fire(p.planOpt)
		}
		return 0
	case modeRandom:
		p.seamCount++
		if p.budget > 0 && len(opts) > 1 && p.w.t.Bool(1, p.rate) {
			p.budget--
			o := 1 + p.w.t.Choice(len(opts)-1)
			k.Annotate("%s seam %s -> FAULT %s", p.name, label, opts[o])
			return fire(o)
		}
		return 0
	default:
		p.seamCount++
		if p.budget > 0 && len(opts) > 1 {
			o := k.SeamW(label, p.weight, 1, opts...)
			if o > 0 {
				// (the kernel has counted the fault itself)
				p.budget--
				c.excuse(opts[o])
			}
			return o
		}
		k.Yield(label)
		return 0
	}
}

// --- configuration and workload generation ---------------------------------------------

func pick[T any](t *simsync.Tape, xs []T) T { return xs[t.Choice(len(xs))] }

func (w *world) drawConfig() {
	t := w.t
	c := &w.cfg
	if t.Bool(1, 3) {
		c.ss = 1 + t.Choice(64)
	} else {
		c.ss = pick(t, []int{4, 1, 2, 3, 5, 7, 8, 16, 31, 32, 64})
	}
	if t.Bool(1, 3) {
		c.nsec = 1 + t.Choice(200)
	} else {
		c.nsec = pick(t, []int{6, 1, 2, 3, 4, 9, 13, 20, 40, 63, 64, 65, 100, 127, 128, 129, 200})
	}
	c.nslots = 1 + t.Choice(6)
	capBytes := uint64(c.ss * c.nsec)
	c.maxBytes = pick(t, []uint64{1 << 40, capBytes, capBytes * 2, capBytes * 4, 1 << 40, capBytes/2 + 1, capBytes + uint64(c.ss), uint64(1 + c.ss*2)})
	c.maxFiles = uint64(pick(t, []int{c.nslots + 2, c.nslots, c.nslots - 1, 1}))
	if c.maxFiles < 1 {
		c.maxFiles = 1
	}
	c.frag = pick(t, []int{0, 1, 2, 0})
	c.eofAtEnd = t.Bool(1, 3)
	c.nops = 5 + t.Choice(36)
	if t.Bool(1, 8) {
		c.nops = 40 + t.Choice(81)
	}
	c.maxOff = int64(2*capBytes) + int64(4*c.ss) + 8
	if c.maxOff > 6000 {
		c.maxOff = 6000
	}
	w.r.Logf("config: sectorSize=%d sectors=%d (capacity %d bytes) maxFiles=%d maxBytes=%d fragmentationMode=%d deviceEOFAtEnd=%v slots=%d ops=%d", c.ss, c.nsec, capBytes, c.maxFiles, c.maxBytes, c.frag, c.eofAtEnd, c.nslots, c.nops)
	w.r.State(fmt.Sprintf("ss%d/nsec%d/frag%d/q%d", bucket(c.ss), bucket(c.nsec), c.frag, bucket(int(c.maxBytes/(capBytes+1)))))
}

func bucket(n int) int {
	b := 0
	for n > 0 {
		n >>= 1
		b++
	}
	return b
}

func (w *world) pickOffset(size int64) int64 {
	t := w.t
	ss := int64(w.cfg.ss)
	k := int64(t.Choice(w.cfg.nsec + 3))
	var off int64
	switch t.Choice(9) {
	case 0:
		off = 0
	case 1:
		off = size
	case 2:
		off = size - 1
	case 3:
		off = size + 1
	case 4:
		off = k * ss
	case 5:
		off = k*ss + 1
	case 6:
		off = k*ss - 1
	case 7:
		off = int64(t.Choice(int(w.cfg.maxOff) + 1))
	case 8:
		off = size / 2
	}
	if off < 0 {
		off = 0
	}
	if off > w.cfg.maxOff {
		off = w.cfg.maxOff
	}
	return off
}

func (w *world) pickLen(remainingQuota int64) int {
	t := w.t
	ss := w.cfg.ss
	var n int
	switch t.Choice(9) {
	case 0:
		n = 1
	case 1:
		n = ss
	case 2:
		n = ss + 1
	case 3:
		n = ss - 1
	case 4:
		n = 2*ss + 1
	case 5:
		n = 1 + t.Choice(3*ss+2)
	case 6:
		n = 1 + t.Choice(w.cfg.ss*w.cfg.nsec+ss)
	case 7:
		n = int(remainingQuota)
	case 8:
		n = int(remainingQuota) + 1
	}
	if n < 1 {
		n = 1
	}
	if n > 4000 {
		n = 4000
	}
	return n
}

// genOp draws the next operation given the model state of the generating pass.
func (w *world) genOp(p *pass) *op {
	for len(w.queued) > 0 {
		o := w.queued[0]
		w.queued = w.queued[1:]
		if p.slots[o.slot] != nil {
			return o
		}
	}
	o := w.genFreshOp(p)
	// Shrinking is most interesting when the file grows again afterwards
	// (old data, or hole source data, must not reappear).
	if fm := p.slots[o.slot]; fm != nil && o.kind == opTrunc && o.size >= 0 && o.size < int64(len(fm.data)) && w.t.Bool(1, 2) {
		back := pick(w.t, []int64{int64(len(fm.data)), o.size + 1, o.size + int64(w.cfg.ss), int64(len(fm.data)) + 1})
		if w.t.Bool(1, 3) {
			w.queued = append(w.queued, &op{kind: opWrite, slot: o.slot, off: back, n: 1})
		} else {
			w.queued = append(w.queued, &op{kind: opTrunc, slot: o.slot, size: back})
		}
	}
	return o
}

func (w *world) genFreshOp(p *pass) *op {
	t := w.t
	cfg := &w.cfg
	slot := t.Choice(cfg.nslots)
	fm := p.slots[slot]
	used, _, _, _ := p.quotaUsed(p.seq)
	remaining := int64(p.maxBytes) - used
	if remaining > 1<<20 {
		remaining = 1 << 20
	}
	if fm == nil {
		o := &op{kind: opNew, slot: slot}
		switch t.Choice(5) {
		case 0:
			o.size = 0
		case 1:
			o.size = int64(1 + t.Choice(3*cfg.ss))
		case 2:
			o.size = w.pickOffset(0)
		case 3:
			o.size = remaining
		case 4:
			o.size = remaining + 1
		}
		if o.size > cfg.maxOff {
			o.size = cfg.maxOff
		}
		o.hs.kind = t.Choice(3)
		if o.hs.kind == 2 {
			o.hs.l = int(o.size)
			if t.Bool(1, 2) && o.size > 0 {
				o.hs.l = t.Choice(int(o.size) + 1)
			}
			o.hs.ext = pick(t, []int{cfg.ss, 1, 2, 3, cfg.ss - 1, cfg.ss + 1, 2 * cfg.ss, 1 << 20})
			if o.hs.ext < 1 {
				o.hs.ext = 1
			}
			o.hs.phase = 1 - t.Choice(2)
		}
		return o
	}
	size := int64(len(fm.data))
	o := &op{slot: slot}
	switch t.Weighted([]int{8, 5, 3, 2, 2}) {
	case 0:
		o.kind = opWrite
		o.off = w.pickOffset(size)
		grow := remaining
		if o.off > size {
			grow -= o.off - size
		} else {
			grow += size - o.off
		}
		o.n = w.pickLen(grow)
		o.zeros = t.Bool(1, 16)
		if t.Bool(1, 60) {
			o.off = -1
		}
	case 1:
		o.kind = opRead
		o.off = w.pickOffset(size)
		if t.Bool(1, 4) {
			o.off, o.n = 0, int(size)+t.Choice(3)
		} else {
			o.n = w.pickLen(size-o.off) - t.Choice(2)
		}
		if t.Bool(1, 60) {
			o.off = -1
		}
	case 2:
		o.kind = opTrunc
		switch t.Choice(7) {
		case 0, 1:
			o.size = w.pickOffset(size)
		case 2:
			o.size = size + remaining
		case 3:
			o.size = size + remaining + 1
		case 4:
			o.size = size / 2
		case 5:
			o.size = size - 1
		case 6:
			o.size = size - int64(t.Choice(cfg.ss+2))
		}
		if o.size < 0 {
			o.size = 0
		}
		if o.size > cfg.maxOff {
			o.size = cfg.maxOff
		}
		if t.Bool(1, 60) {
			o.size = -1
		}
	case 3:
		o.kind = opSeek
		o.off = w.pickOffset(size)
		o.region = filesystem.Data
		if t.Bool(1, 2) {
			o.region = filesystem.Hole
		}
		if t.Bool(1, 60) {
			o.off = -1
		}
	case 4:
		o.kind = opClose
	}
	return o
}

// --- passes -----------------------------------------------------------------------------------

// runSequential executes the workload on the controller goroutine.
func (w *world) runSequential(p *pass, generate bool) {
	if generate {
		for i := 0; i < w.cfg.nops && !w.k.Failed(); i++ {
			o := w.genOp(p)
			w.ops = append(w.ops, o)
			w.r.Logf("op %d: %s", i, o)
			p.exec(p.seq, o)
		}
	} else {
		for _, o := range w.ops {
			if w.k.Failed() {
				return
			}
			p.exec(p.seq, o)
		}
	}
	if w.k.Failed() {
		return
	}
	p.finish()
}

// runActors executes the workload with two kernel-scheduled actors, each
// owning the files of every other slot (file handles are documented as not
// thread-safe; the pool, allocator and quota are shared).
func (w *world) runActors(p *pass) {
	lists := make([][]*op, len(p.actors))
	for _, o := range w.ops {
		lists[o.slot%len(lists)] = append(lists[o.slot%len(lists)], o)
	}
	w.runActorLists(p, lists)
}

// runActorLists runs one actor per operation list.
func (w *world) runActorLists(p *pass, lists [][]*op) {
	k := w.k
	var acts []*simsync.Actor
	for a := range p.actors {
		c := p.actors[a]
		mine := lists[a]
		acts = append(acts, k.Spawn(c.name, func() {
			for _, o := range mine {
				if k.Failed() {
					return
				}
				k.Yield("op")
				p.exec(c, o)
			}
		}))
	}
	k.AfterStep = p.afterStep
	k.AtomicPoints = p.atomic
	defer func() { k.AfterStep, k.AtomicPoints = nil, false }()
	k.Run(1 << 22)
	if k.Failed() {
		return
	}
	for _, a := range acts {
		if !a.Done() {
			lw, bl, sp := k.Stuck()
			p.violate("C15/call-never-returned", fmt.Sprintf("nothing is enabled any more but operations have not returned: lock-waiters=%v blocked=%v parked=%v held=%v", lw, bl, sp, k.HeldLocks()))
			return
		}
	}
	if p.seamCount > 0 {
		k.Probe("interleaved-pass-completed")
	}
	p.finish()
}

// finish is the drain phase of a pass: faults off, read everything back,
// close everything, conservation sweeps.
func (p *pass) finish() {
	w := p.w
	k := w.k
	c := p.seq
	c.suspend++
	p.mode = modePlan // everything below runs on the controller
	p.planAt = -1
	c.begin(nil, nil, -1)
	c.end()
	var probeTarget *fileModel
	for _, fm := range p.slots {
		if fm == nil {
			continue
		}
		p.verifyFile(c, fm, "at the end of the pass")
		if k.Failed() {
			return
		}
		p.checkLen(c, fm)
		if probeTarget == nil {
			probeTarget = fm
		}
	}
	p.checkAccounting(c, "at the end of the pass")
	if k.Failed() {
		return
	}
	p.probeQuotaOn(c, probeTarget, "at the end of the pass", p.suspect)
	if k.Failed() {
		return
	}
	for slot, fm := range p.slots {
		if fm == nil {
			continue
		}
		c.begin(nil, fm, fm.gen)
		var err error
		p.guarded("final Close", func() { err = fm.f.Close() })
		c.end()
		if k.Failed() {
			return
		}
		if err != nil {
			p.violate("C15/unexpected-error", fmt.Sprintf("Close of file generation %d at the end of the pass failed with %q", fm.gen, err))
			return
		}
		if fm.verifiedData > 0 {
			p.filesVerified++
		}
		p.slots[slot] = nil
	}
	c.fileGen = -1
	p.sweepSectors()
	if k.Failed() {
		return
	}
	p.sweepQuota()
	if k.Failed() {
		return
	}
	if held := k.HeldLocks(); len(held) > 0 {
		p.violate("C15/lock-left-held", fmt.Sprintf("after the pass: %v", held))
		return
	}
	w.sweeps++
	k.Probe("conservation-sweep-passed")
	if p.failedOps > 0 {
		k.Probe("conservation-sweep-passed-after-failed-ops")
	}
}

// sweepSectors: with every file closed, nothing may be outstanding and the
// whole device must be allocatable again - twice, with everything freed in
// between through both Free functions.
func (p *pass) sweepSectors() {
	a := p.alloc
	nsec := p.w.cfg.nsec
	if len(a.out) != 0 {
		p.violate("C15/sector-leak", fmt.Sprintf("all files are closed but %d of %d sectors are still allocated: %v", len(a.out), nsec, strings.Join(sortedSectors(a.out), " ")))
		return
	}
	a.sweep = true
	defer func() { a.sweep = false }()
	for round := 0; round < 2; round++ {
		type rng struct {
			first uint32
			n     int
		}
		var got []rng
		total := 0
		for calls := 0; total < nsec; calls++ {
			if calls > nsec+2 {
				panic(simsync.HarnessError{Msg: "sector sweep does not terminate"})
			}
			var first uint32
			var n int
			var err error
			p.guarded("sweep AllocateContiguous", func() { first, n, err = a.AllocateContiguous(nsec - total) })
			if p.w.k.Failed() {
				return
			}
			if err != nil {
				// (the wrapper has reported C15/capacity-not-restored)
				p.violate("C15/capacity-not-restored", fmt.Sprintf("sweep %d: only %d of %d sectors could be allocated: %v", round, total, nsec, err))
				return
			}
			got = append(got, rng{first, n})
			total += n
		}
		var err error
		p.guarded("sweep AllocateContiguous", func() { _, _, err = a.AllocateContiguous(1) })
		if p.w.k.Failed() {
			return
		}
		if err == nil {
			p.violate("C15/sector-handed-out-twice", fmt.Sprintf("sweep %d: allocator handed out a sector beyond the %d the device has", round, nsec))
			return
		}
		for i, g := range got {
			p.guarded("sweep Free", func() {
				if (i+round)%2 == 0 {
					a.FreeContiguous(g.first, g.n)
				} else {
					list := []uint32{0}
					for s := g.first; s < g.first+uint32(g.n); s++ {
						list = append(list, s)
					}
					a.FreeList(list)
				}
			})
			if p.w.k.Failed() {
				return
			}
		}
	}
}

// sweepQuota: with every file closed the whole quota must be available again
// and not a byte or file more.
func (p *pass) sweepQuota() {
	want := int64(p.maxBytes)
	newFile := func(size int64) (f filesystem.FileReadWriter, err error) {
		p.guarded("sweep NewFile", func() { f, err = p.qpool.NewFile(pool.ZeroHoleSource, uint64(size)) })
		return
	}
	closeFile := func(f filesystem.FileReadWriter) {
		p.guarded("sweep Close", func() {
			if err := f.Close(); err != nil {
				p.violate("C15/unexpected-error", fmt.Sprintf("sweep: Close failed with %q", err))
			}
		})
	}
	f1, err := newFile(want)
	if p.w.k.Failed() {
		return
	}
	if err != nil {
		rule := "C15/unexpected-error"
		if isQuotaErr(err) {
			rule = "C15/quota-leak"
		}
		p.violate(rule, fmt.Sprintf("all files are closed but a file of %d bytes (the byte quota) is refused: %v", want, err))
		return
	}
	if f2, err := newFile(1); err == nil {
		closeFile(f2)
		closeFile(f1)
		p.violate("C15/quota-exceeded", fmt.Sprintf("all files were closed; after creating a file of %d bytes (the byte quota) another file of 1 byte was accepted: quota was released twice", want))
		return
	} else if !isQuotaErr(err) {
		p.violate("C15/unexpected-error", fmt.Sprintf("sweep: NewFile(1) failed with %q", err))
		return
	}
	closeFile(f1)
	if p.w.k.Failed() {
		return
	}
	var files []filesystem.FileReadWriter
	for i := uint64(0); i < p.maxFiles; i++ {
		f, err := newFile(0)
		if p.w.k.Failed() {
			return
		}
		if err != nil {
			rule := "C15/unexpected-error"
			if isQuotaErr(err) {
				rule = "C15/quota-leak"
			}
			p.violate(rule, fmt.Sprintf("all files were closed but only %d of %d files can be created: %v", i, p.maxFiles, err))
			return
		}
		files = append(files, f)
	}
	if f, err := newFile(0); err == nil {
		closeFile(f)
		p.violate("C15/quota-exceeded", fmt.Sprintf("all files were closed; %d files (the file quota) were created and one more was accepted: file quota was released twice", p.maxFiles))
		return
	} else if !isQuotaErr(err) {
		p.violate("C15/unexpected-error", fmt.Sprintf("sweep: NewFile(0) failed with %q", err))
		return
	}
	for _, f := range files {
		closeFile(f)
	}
}

// --- the run -------------------------------------------------------------------------------------

func (w *world) digest() string {
	h := fnv.New64a()
	fmt.Fprintf(h, "%+v", w.cfg)
	for _, o := range w.ops {
		fmt.Fprintf(h, "|%s", o)
	}
	return fmt.Sprintf("%016x", h.Sum64())
}

const maxEnumPasses = 400

func (w *world) main() {
	k, t := w.k, w.t
	w.drawConfig()

	// 1. Generating pass: fault-free, records the seam calls.
	p0 := w.newPass("gen", modePlan)
	p0.record = true
	w.runSequential(p0, true)
	if k.Failed() {
		return
	}
	w.genVerifiedFiles = p0.filesVerified
	total := 0
	for _, n := range w.seamOpts {
		total += n
	}
	k.Note(fmt.Sprintf("workload %s: %d ops, %d seam calls, %d single faults", w.digest(), len(w.ops), len(w.seamOpts), total))
	w.r.Logf("gen pass: %d seam calls, %d (call, fault) pairs to enumerate; %d files created, %d failed ops (quota/exhaustion)", len(w.seamOpts), total, p0.filesCreated, p0.failedOps)
	w.r.Count("seam-calls-in-gen-pass", len(w.seamOpts))

	// 2. Fault enumeration: one pass per (seam call, fault option).
	stride, start := 1, 0
	if total > maxEnumPasses {
		stride = (total + maxEnumPasses - 1) / maxEnumPasses
		start = t.Choice(stride)
		k.Probe("enumeration-sampled")
		w.r.Count("enumeration-pairs-skipped", total-total/stride)
	} else {
		k.Probe("enumeration-complete")
	}
	pair := 0
	for call, nopt := range w.seamOpts {
		for o := 1; o <= nopt; o++ {
			pair++
			if (pair-1)%stride != start {
				continue
			}
			p := w.newPass(fmt.Sprintf("enum%d.%d", call, o), modePlan)
			p.planAt, p.planOpt = call, o
			p.planDesc = fmt.Sprintf("seam call #%d (%s) option %d", call, w.seamLbls[call], o)
			w.runSequential(p, false)
			if k.Failed() {
				return
			}
			if p.seamCount <= call {
				panic(simsync.HarnessError{Msg: fmt.Sprintf("pass %s did not reach seam call %d (%d calls)", p.name, call, p.seamCount)})
			}
			w.enumPasses++
		}
	}
	w.r.Count("enumeration-passes", w.enumPasses)

	// 3. Interleaved passes (two actors), fault-free and with faults.
	if w.cfg.nslots >= 2 {
		k.FaultsOn = false
		p := w.newPass("actors", modeActors)
		w.runActors(p)
		if k.Failed() {
			return
		}
		k.FaultsOn = true
		p = w.newPass("actorsf", modeActors)
		p.budget = 1 + t.Choice(4)
		p.weight = pick(t, []int{60, 20, 200})
		w.runActors(p)
		if k.Failed() {
			return
		}
		w.r.Count("interleaved-passes", 2)
	}

	// 4. Quota contention: 2-4 actors on their own files of one pool with a
	// tight quota, interleaved at every single atomic operation as well.
	for i := 0; i < 2; i++ {
		w.runQuotaPass(i)
		if k.Failed() {
			return
		}
	}

	// 5. Sequential pass with several random faults.
	p := w.newPass("random", modeRandom)
	p.budget = 2 + t.Choice(7)
	p.rate = pick(t, []int{10, 4, 30})
	w.runSequential(p, false)
	if k.Failed() {
		return
	}
	w.r.Count("passes", w.passes)

	w.r.NonTrivial = w.genVerifiedFiles >= 1 && w.enumPasses >= 1 && w.sweeps == w.passes
}

// runQuotaPass: every actor repeatedly creates, grows, shrinks and closes its
// own file; the byte quota suffices for one actor's need but not for two, the
// file quota is 1-3. Fault-free; the kernel also parks actors before every
// sync/atomic operation of the code under test (Kernel.AtomicPoints).
func (w *world) runQuotaPass(idx int) {
	t, k := w.t, w.k
	na := 2 + t.Choice(3)
	need := int64(4 + t.Choice(60))
	quota := need + 1 + int64(t.Choice(int(need)-1)) // need < quota < 2*need
	maxFiles := 1 + t.Choice(3)
	p := w.newPassQ(fmt.Sprintf("quota%d", idx), modeActors, na, na, uint64(maxFiles), uint64(quota))
	p.atomic = true
	w.r.Logf("pass %s: %d actors, quota %d files / %d bytes, one actor needs %d bytes", p.name, na, maxFiles, quota, need)
	size := func() int64 {
		return pick(t, []int64{need, quota - need, quota - need + 1, need - 1, quota, 1, 0, need + 1})
	}
	lists := make([][]*op, na)
	for a := 0; a < na; a++ {
		n := 6 + t.Choice(12)
		for len(lists[a]) < n {
			o := &op{kind: opNew, slot: a, size: size()}
			o.hs.kind = t.Choice(2)
			lists[a] = append(lists[a], o)
			for j := t.Choice(3); j > 0; j-- {
				if t.Bool(1, 3) {
					lists[a] = append(lists[a], &op{kind: opWrite, slot: a, off: size(), n: 1 + t.Choice(3)})
				} else {
					lists[a] = append(lists[a], &op{kind: opTrunc, slot: a, size: size()})
				}
			}
			lists[a] = append(lists[a], &op{kind: opClose, slot: a})
		}
		for i, o := range lists[a] {
			w.r.Logf("pass %s actor%d op %d: %s", p.name, a, i, o)
		}
	}
	k.FaultsOn = false
	parks := k.AtomicParks
	w.runActorLists(p, lists)
	k.FaultsOn = true
	w.r.Count("atomic-parks", k.AtomicParks-parks)
	if !k.Failed() {
		k.Probe("quota-contention-pass-completed")
		w.r.Count("quota-contention-passes", 1)
	}
}

// World is the entry point registered for property C15.
func World(prop string) simrun.World {
	return func(r *simrun.Run) {
		w := &world{r: r, k: r.K, t: r.T}
		w.main()
	}
}

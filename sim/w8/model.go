package w8

import (
	"fmt"
	"io"
	"runtime/debug"
	"sort"
	"strings"

	"github.com/buildbarn/bb-remote-execution/pkg/filesystem/pool"
	"github.com/buildbarn/bb-remote-execution/pkg/verifsim/simsync"
	"github.com/buildbarn/bb-storage/pkg/filesystem"
	"google.golang.org/grpc/codes"
	"google.golang.org/grpc/status"
)

// --- operations ------------------------------------------------------------------

const (
	opNew = iota
	opWrite
	opRead
	opTrunc
	opSeek
	opClose
)

type op struct {
	kind   int
	slot   int
	off    int64 // write/read/seek offset
	n      int   // write/read length
	size   int64 // new/truncate size
	hs     hsSpec
	region filesystem.RegionType
	zeros  bool // write zero bytes instead of the file's pattern
}

func (o *op) String() string {
	switch o.kind {
	case opNew:
		return fmt.Sprintf("slot%d NewFile(size=%d, holeSource{kind=%d len=%d extent=%d phase=%d})", o.slot, o.size, o.hs.kind, o.hs.l, o.hs.ext, o.hs.phase)
	case opWrite:
		z := ""
		if o.zeros {
			z = " zeros"
		}
		return fmt.Sprintf("slot%d WriteAt(len=%d, off=%d%s)", o.slot, o.n, o.off, z)
	case opRead:
		return fmt.Sprintf("slot%d ReadAt(len=%d, off=%d)", o.slot, o.n, o.off)
	case opTrunc:
		return fmt.Sprintf("slot%d Truncate(%d)", o.slot, o.size)
	case opSeek:
		r := "Data"
		if o.region == filesystem.Hole {
			r = "Hole"
		}
		return fmt.Sprintf("slot%d GetNextRegionOffset(%d, %s)", o.slot, o.off, r)
	case opClose:
		return fmt.Sprintf("slot%d Close()", o.slot)
	}
	return "?"
}

// --- reference model of one file -----------------------------------------------------

// fileModel is the trivially correct model of one pool file: a byte array.
type fileModel struct {
	gen  int
	slot int
	f    filesystem.FileReadWriter
	hs   *fakeHoleSource // nil when the real ZeroHoleSource is used
	data []byte
	// alt lists, for bytes whose value became uncertain through a *failed*
	// shrinking Truncate, the other values a read may legally return.
	alt map[int][]byte
	// alloc / maybe: sector indices of the file that certainly / possibly
	// occupy a device sector (possibly: after a failed shrinking Truncate).
	alloc map[int]bool
	maybe map[int]bool
	wseq  int
	// shrunk: the file was successfully shrunk at least once
	shrunk bool
	// bytes of written (pattern) data that a later read returned correctly
	verifiedData int
}

func (fm *fileModel) pattern(wseq, i int) byte {
	return 1 + byte((fm.gen*53+wseq*17+i*7)%255)
}

func (fm *fileModel) allowed(i int, got byte) bool {
	if fm.data[i] == got {
		return true
	}
	for _, a := range fm.alt[i] {
		if a == got {
			return true
		}
	}
	return false
}

func (fm *fileModel) mayBeZero(i int) bool { return fm.allowed(i, 0) }

// observe pins an uncertain byte to the value a read returned.
func (fm *fileModel) observe(i int, got byte) {
	if len(fm.alt) > 0 {
		if _, ok := fm.alt[i]; ok {
			fm.data[i] = got
			delete(fm.alt, i)
		}
	}
}

func (fm *fileModel) resize(size int) {
	if size <= len(fm.data) {
		for i := range fm.alt {
			if i >= size {
				delete(fm.alt, i)
			}
		}
		fm.data = fm.data[:size]
		return
	}
	fm.data = append(fm.data, make([]byte, size-len(fm.data))...)
}

func (fm *fileModel) dropSectorsFrom(first int, toMaybe bool) {
	for s := range fm.alloc {
		if s >= first {
			delete(fm.alloc, s)
			if toMaybe {
				fm.maybe[s] = true
			}
		}
	}
	if !toMaybe {
		for s := range fm.maybe {
			if s >= first {
				delete(fm.maybe, s)
			}
		}
	}
}

// --- per-actor operation context -----------------------------------------------------

// opCtx is the state of the operation an actor (or, in sequential passes, the
// controller) currently executes. Seams look it up to attribute faults.
type opCtx struct {
	p        *pass
	name     string
	cur      *op
	file     *fileModel
	fileGen  int32
	inflight bool
	suspend  int // >0: seams neither park, count nor inject (verification reads, probes)
	excuses  []string
	foreign  string
	// Quota this operation may hold on top of / below the model's
	// pre-operation state while it is in flight.
	pendBytesLo, pendBytesHi int64
	pendFilesLo, pendFilesHi int64
	baseNewFileFailed        bool
	// Extremes, over the quiescent points since the operation began, of
	// what everybody else may hold (plus this actor's own pre-operation
	// state): a refusal or acceptance is decided at some instant during
	// the flight, not at the instant the call returns.
	sampled        bool
	minLoB, maxHiB int64
	minLoF, maxHiF int64
	overlapAlloc   bool // another allocation was in flight at the same time
}

// sample records the current quota interval as seen by this operation.
func (c *opCtx) sample() {
	bLo, bHi, fLo, fHi := c.p.quotaUsed(c)
	if !c.sampled {
		c.sampled = true
		c.minLoB, c.maxHiB, c.minLoF, c.maxHiF = bLo, bHi, fLo, fHi
	} else {
		c.minLoB, c.maxHiB = min(c.minLoB, bLo), max(c.maxHiB, bHi)
		c.minLoF, c.maxHiF = min(c.minLoF, fLo), max(c.maxHiF, fHi)
	}
	for _, o := range c.p.ctxs {
		if o != c && o.inflight && (o.pendBytesHi > 0 || o.pendFilesHi > 0) {
			c.overlapAlloc = true
		}
	}
}

func (c *opCtx) gen() int32 { return c.fileGen }

func (c *opCtx) excuse(s string) { c.excuses = append(c.excuses, s) }

func (c *opCtx) describe() string {
	if c.cur == nil {
		return c.name + " (no operation; file generation " + fmt.Sprint(c.fileGen) + ")"
	}
	return fmt.Sprintf("%s file generation %d in %s", c.name, c.fileGen, c.cur)
}

func (c *opCtx) begin(o *op, fm *fileModel, gen int) {
	c.cur, c.file, c.fileGen = o, fm, int32(gen)
	c.inflight = true
	c.excuses = c.excuses[:0]
	c.foreign = ""
	c.baseNewFileFailed = false
	c.pendBytesLo, c.pendBytesHi, c.pendFilesLo, c.pendFilesHi = 0, 0, 0, 0
	c.sampled, c.overlapAlloc = false, false
	c.sample()
}

func (c *opCtx) end() {
	c.inflight = false
	c.cur = nil
	c.pendBytesLo, c.pendBytesHi, c.pendFilesLo, c.pendFilesHi = 0, 0, 0, 0
}

// --- error classification --------------------------------------------------------------

func isQuotaErr(err error) bool {
	return err != nil && status.Code(err) == codes.InvalidArgument && strings.Contains(err.Error(), "quota reached")
}

func isInvalidArgument(err error) bool {
	return err != nil && status.Code(err) == codes.InvalidArgument && !isQuotaErr(err)
}

func firstLine(s string) string {
	if i := strings.IndexByte(s, '\n'); i >= 0 {
		s = s[:i]
	}
	if len(s) > 120 {
		s = s[:120]
	}
	return s
}

// guarded runs code under test and turns its panics into violations (needed
// because sequential passes run on the controller goroutine).
func (p *pass) guarded(what string, fn func()) {
	defer func() {
		r := recover()
		if r == nil {
			return
		}
		switch v := r.(type) {
		case simsync.Poison:
			panic(r)
		case simsync.HarnessError:
			if strings.HasPrefix(v.Msg, "controller would block on a mutex") {
				// Nobody else runs in a sequential pass: the code under
				// test left its own mutex locked.
				p.violate("C15/lock-left-held", fmt.Sprintf("%s would block forever: %s; held: %v", what, v.Msg, p.w.k.HeldLocks()))
				return
			}
			panic(r)
		default:
			msg := fmt.Sprint(r)
			p.w.k.Violate("panic:"+firstLine(msg), fmt.Sprintf("pass %s: %s panicked: %s\n%s", p.name, what, msg, debug.Stack()))
		}
	}()
	fn()
}

// --- quota model ------------------------------------------------------------------------

// quotaUsed returns the interval of bytes and files that may be accounted at
// this instant, as seen by the operation of context c: the model sizes of all
// open files plus whatever operations of *other* actors currently in flight
// may have reserved or released already.
func (p *pass) quotaUsed(c *opCtx) (bytesLo, bytesHi, filesLo, filesHi int64) {
	var bytes, files int64
	for _, fm := range p.slots {
		if fm != nil {
			bytes += int64(len(fm.data))
			files++
		}
	}
	bytesLo, bytesHi, filesLo, filesHi = bytes, bytes+p.suspect, files, files
	for _, o := range p.ctxs {
		if o != c && o.inflight {
			bytesLo += o.pendBytesLo
			bytesHi += o.pendBytesHi
			filesLo += o.pendFilesLo
			filesHi += o.pendFilesHi
		}
	}
	return
}

// checkQuota compares the outcome of an operation that needs growBytes more
// bytes and growFiles more files with the quota model. It returns true if the
// error (if any) was a legitimate quota refusal.
func (p *pass) checkQuota(c *opCtx, growBytes, growFiles int64, err error) bool {
	maxBytes, maxFiles := int64(p.maxBytes), int64(p.maxFiles)
	bLo, bHi, fLo, fHi := p.quotaUsed(c)
	nowFits := (growBytes == 0 || bHi+growBytes <= maxBytes) && (growFiles == 0 || fHi+growFiles <= maxFiles)
	if p.atomic {
		// Interleaving at single atomic operations: the decision was
		// taken at some quiescent state since the operation began.
		c.sample()
		bLo, bHi, fLo, fHi = c.minLoB, c.maxHiB, c.minLoF, c.maxHiF
		if c.overlapAlloc && (growBytes > 0 || growFiles > 0) {
			p.w.k.Probe("allocations-in-flight-together")
			if growBytes > 0 && bHi+growBytes > maxBytes && bLo+growBytes <= maxBytes || growFiles > 0 && fHi+growFiles > maxFiles && fLo+growFiles <= maxFiles {
				p.w.k.Probe("allocations-in-flight-together-competing-for-last-quota")
			}
		}
	}
	mustFail := bLo+growBytes > maxBytes && growBytes > 0 || fLo+growFiles > maxFiles && growFiles > 0
	mustSucceed := (growBytes == 0 || bHi+growBytes <= maxBytes) && (growFiles == 0 || fHi+growFiles <= maxFiles)
	state := fmt.Sprintf("model: %d..%d of %d bytes and %d..%d of %d files in use, operation needs %d more bytes and %d more files", bLo, bHi, maxBytes, fLo, fHi, maxFiles, growBytes, growFiles)
	if p.atomic && isQuotaErr(err) && nowFits && !mustSucceed {
		p.w.k.Probe("refusal-justified-only-by-in-flight-reservations")
	}
	if isQuotaErr(err) {
		p.w.k.Probe("quota-refusal")
		if mustSucceed {
			p.violate("C15/quota-leak", fmt.Sprintf("%s was refused with %q although the quota has room (%s): quota released too little earlier", c.describe(), err, state))
		}
		return true
	}
	if mustFail {
		p.violate("C15/quota-exceeded", fmt.Sprintf("%s was not refused (err=%v) although it exceeds the quota (%s): quota released twice or not enforced", c.describe(), err, state))
	}
	if growBytes > 0 && !mustFail && bLo+growBytes == maxBytes {
		p.w.k.Probe("quota-filled-exactly")
	}
	return false
}

// afterStep runs at every quiescent point of an interleaved pass. Conservation
// is stated on what is *held*: the sizes of the live files as acknowledged by
// completed operations, minus whatever operations in flight may already have
// given back, can never exceed the configured quota.
func (p *pass) afterStep() {
	for _, c := range p.actors {
		if c.inflight {
			c.sample()
		}
	}
	var bytes, files int64
	var live []string
	for _, fm := range p.slots {
		if fm != nil {
			bytes += int64(len(fm.data))
			files++
			live = append(live, fmt.Sprintf("slot%d/gen%d:%d bytes", fm.slot, fm.gen, len(fm.data)))
		}
	}
	var flying []string
	for _, c := range p.ctxs {
		if c.inflight {
			bytes += c.pendBytesLo
			files += c.pendFilesLo
			if c.cur != nil {
				flying = append(flying, c.name+": "+c.cur.String())
			}
		}
	}
	if files == int64(p.maxFiles) {
		p.w.k.Probe("file-quota-fully-held")
	}
	if bytes > int64(p.maxBytes) || files > int64(p.maxFiles) {
		p.violate("C15/quota-overshoot", fmt.Sprintf("at least %d bytes in %d files are held at the same time (live files: %v; operations in flight counted with the least they can hold: %v) but the quota is %d bytes and %d files: the same quota was handed out twice", bytes, files, live, flying, p.maxBytes, p.maxFiles))
	}
}

// needExcuse flags an error that nothing explains.
func (p *pass) needExcuse(c *opCtx, err error) {
	if err == nil || len(c.excuses) > 0 {
		return
	}
	p.violate("C15/unexpected-error", fmt.Sprintf("%s failed with %q although no fault was injected, the device was not exhausted and the quota model has room", c.describe(), err))
}

// --- executing one operation and checking it against the model --------------------------

func (p *pass) exec(c *opCtx, o *op) {
	w := p.w
	fm := p.slots[o.slot]
	if (o.kind == opNew) != (fm == nil) {
		// In fault passes a slot may be in another state than in the
		// generating pass (e.g. NewFile failed).
		w.r.Count("ops-skipped", 1)
		return
	}
	w.r.Count("ops", 1)
	p.opsDone++
	failed := false
	switch o.kind {
	case opNew:
		failed = p.execNew(c, o)
	case opWrite:
		failed = p.execWrite(c, o, fm)
	case opRead:
		failed = p.execRead(c, o, fm)
	case opTrunc:
		failed = p.execTrunc(c, o, fm)
	case opSeek:
		failed = p.execSeek(c, o, fm)
	case opClose:
		failed = p.execClose(c, o, fm)
	}
	if w.k.Failed() {
		return
	}
	// After every operation: size, and (when nobody else is mid-operation)
	// sector accounting.
	if fm = p.slots[o.slot]; fm != nil {
		p.checkLen(c, fm)
	}
	p.checkAccounting(c, "after "+o.String())
	faulted := failed && len(c.excuses) > 0
	if failed && !faulted {
		// Refused by the quota: predicted exactly by the model above.
		w.r.Count("refused-ops", 1)
	}
	if faulted {
		// "A failed operation may lose its own effect or apply a prefix
		// of it, nothing else": re-read everything this actor owns.
		p.failedOps++
		w.r.Count("failed-ops", 1)
		p.verifyOwned(c, "after failed "+o.String())
		if w.k.Failed() {
			return
		}
	}
	if (faulted || p.suspect > 0) && !p.atomic {
		// ... and measure the remaining byte quota from the outside.
		var target *fileModel
		for _, x := range p.slots {
			if x != nil && p.owner(x.slot) == c {
				target = x
				break
			}
		}
		p.probeQuotaOn(c, target, "after "+o.String(), p.suspect)
	}
}

func (p *pass) execNew(c *opCtx, o *op) bool {
	w := p.w
	p.gens++
	gen := p.gens
	c.begin(o, nil, gen)
	defer c.end()
	c.pendBytesHi, c.pendFilesHi = o.size, 1
	var hsrc pool.HoleSource = pool.ZeroHoleSource
	var fake *fakeHoleSource
	if o.hs.kind != 0 {
		fake = &fakeHoleSource{p: p, spec: o.hs, gen: gen, l: o.hs.l}
		hsrc = fake
	}
	var f filesystem.FileReadWriter
	var err error
	p.guarded(o.String(), func() { f, err = p.qpool.NewFile(hsrc, uint64(o.size)) })
	if w.k.Failed() {
		return false
	}
	w.k.Annotate("%s %s gen=%d -> err=%v", p.name, o, gen, err)
	if p.checkQuota(c, o.size, 1, err) {
		return true
	}
	if err != nil {
		p.needExcuse(c, err)
		if c.baseNewFileFailed {
			w.k.Probe("newfile-failed-in-base-pool")
			if o.size > 0 {
				w.k.Probe("newfile-failed-in-base-pool-with-size")
				// The quota reserved for the file must have been
				// released; measured by the next quota probe.
				p.suspect += o.size
			}
		}
		return true
	}
	if f == nil {
		p.violate("C15/bad-return", fmt.Sprintf("%s returned neither a file nor an error", c.describe()))
		return false
	}
	fm := &fileModel{gen: gen, slot: o.slot, f: f, hs: fake, data: make([]byte, o.size), alt: map[int][]byte{}, alloc: map[int]bool{}, maybe: map[int]bool{}}
	for i := 0; i < o.hs.l && i < len(fm.data); i++ {
		fm.data[i] = o.hs.byteAt(gen, i)
	}
	p.slots[o.slot] = fm
	p.filesCreated++
	return false
}

func (p *pass) execWrite(c *opCtx, o *op, fm *fileModel) bool {
	w := p.w
	c.begin(o, fm, fm.gen)
	defer c.end()
	old := int64(len(fm.data))
	var grow int64
	if o.off >= 0 && o.off+int64(o.n) > old {
		grow = o.off + int64(o.n) - old
	}
	c.pendBytesHi = grow
	fm.wseq++
	buf := make([]byte, o.n)
	if !o.zeros {
		for i := range buf {
			buf[i] = fm.pattern(fm.wseq, i)
		}
	}
	given := append([]byte(nil), buf...)
	var n int
	var err error
	p.guarded(o.String(), func() { n, err = fm.f.WriteAt(buf, o.off) })
	if w.k.Failed() {
		return false
	}
	w.k.Annotate("%s %s gen=%d -> n=%d err=%v excuses=%v", p.name, o, fm.gen, n, err, c.excuses)
	if string(given) != string(buf) {
		p.violate("C15/bad-return", fmt.Sprintf("%s modified the caller's buffer", c.describe()))
		return false
	}
	if n < 0 || n > o.n || (err == nil && n != o.n) {
		p.violate("C15/bad-return", fmt.Sprintf("%s returned n=%d err=%v", c.describe(), n, err))
		return false
	}
	if o.off < 0 {
		if !isInvalidArgument(err) || n != 0 {
			p.violate("C15/bad-return", fmt.Sprintf("%s with a negative offset returned n=%d err=%v", c.describe(), n, err))
		}
		return false
	}
	if p.checkQuota(c, grow, 0, err) {
		if n != 0 {
			p.violate("C15/bad-return", fmt.Sprintf("%s was refused by the quota but reports %d bytes written", c.describe(), n))
		}
		return true
	}
	if err != nil {
		p.needExcuse(c, err)
		if n > 0 {
			w.k.Probe("partial-write")
		}
	}
	// Apply exactly the acknowledged prefix.
	if n > 0 {
		if end := int(o.off) + n; end > len(fm.data) {
			if int(o.off) > len(fm.data) {
				w.k.Probe("write-beyond-eof-leaves-hole")
			}
			fm.resize(end)
		}
		ss := w.cfg.ss
		for i := 0; i < n; i++ {
			fm.data[int(o.off)+i] = buf[i]
			delete(fm.alt, int(o.off)+i)
		}
		for s := int(o.off) / ss; s <= (int(o.off)+n-1)/ss; s++ {
			if !fm.alloc[s] {
				fm.alloc[s] = true
				delete(fm.maybe, s)
			}
		}
	}
	return err != nil
}

// compare checks n bytes returned by a read at off against the model.
func (p *pass) compare(c *opCtx, fm *fileModel, off int, got []byte, what string) bool {
	for i, b := range got {
		if !fm.allowed(off+i, b) {
			rule := "C15/read-mismatch"
			extra := ""
			if c.foreign != "" {
				rule = "C15/foreign-bytes"
				extra = " (" + c.foreign + ")"
			} else if other := p.looksForeign(fm, b); other != "" {
				extra = " (" + other + ")"
			}
			lo, hi := off+i-4, off+i+12
			if lo < off {
				lo = off
			}
			if hi > off+len(got) {
				hi = off + len(got)
			}
			p.violate(rule, fmt.Sprintf("%s: %s: byte at file offset %d is %#02x, model says %#02x (alternatives %v)%s; file bytes [%d,%d) read %x, model %x; file size %d, sector size %d", c.describe(), what, off+i, b, fm.data[off+i], fm.alt[off+i], extra, lo, hi, got[lo-off:hi-off], fm.data[lo:hi], len(fm.data), p.w.cfg.ss))
			return false
		}
	}
	for i, b := range got {
		fm.observe(off+i, b)
		if b != 0 {
			fm.verifiedData++
		}
	}
	return true
}

// looksForeign is only used to make messages more helpful.
func (p *pass) looksForeign(fm *fileModel, b byte) string {
	if b == 0xEE {
		return "0xEE is the content of device bytes that were never written"
	}
	return ""
}

func (p *pass) execRead(c *opCtx, o *op, fm *fileModel) bool {
	w := p.w
	c.begin(o, fm, fm.gen)
	defer c.end()
	buf := make([]byte, o.n)
	for i := range buf {
		buf[i] = 0xA5
	}
	var n int
	var err error
	p.guarded(o.String(), func() { n, err = fm.f.ReadAt(buf, o.off) })
	if w.k.Failed() {
		return false
	}
	w.k.Annotate("%s %s gen=%d -> n=%d err=%v excuses=%v", p.name, o, fm.gen, n, err, c.excuses)
	return p.judgeRead(c, fm, o.off, buf, n, err, "ReadAt")
}

// judgeRead checks the result of ReadAt(buf, off) against the model.
func (p *pass) judgeRead(c *opCtx, fm *fileModel, off int64, buf []byte, n int, err error, what string) bool {
	size := int64(len(fm.data))
	want := int64(len(buf))
	if n < 0 || n > len(buf) {
		p.violate("C15/bad-return", fmt.Sprintf("%s: %s returned n=%d for a buffer of %d", c.describe(), what, n, len(buf)))
		return false
	}
	if off < 0 {
		if !isInvalidArgument(err) || n != 0 {
			p.violate("C15/bad-return", fmt.Sprintf("%s with a negative offset returned n=%d err=%v", c.describe(), n, err))
		}
		return false
	}
	if len(buf) == 0 {
		if n != 0 || (err != nil && err != io.EOF) {
			p.violate("C15/bad-return", fmt.Sprintf("%s: empty %s returned n=%d err=%v", c.describe(), what, n, err))
		}
		return false
	}
	if off >= size {
		if n != 0 || err != io.EOF {
			p.violate("C15/read-eof", fmt.Sprintf("%s: %s at offset %d of a file of %d bytes returned n=%d err=%v instead of 0, io.EOF", c.describe(), what, off, size, n, err))
		} else {
			p.w.k.Probe("read-at-or-past-eof")
		}
		return false
	}
	if off+int64(n) > size {
		p.violate("C15/read-past-eof", fmt.Sprintf("%s: %s returned %d bytes at offset %d but the file has only %d bytes", c.describe(), what, n, off, size))
		return false
	}
	failed := false
	switch {
	case err == nil:
		if int64(n) != want {
			p.violate("C15/bad-return", fmt.Sprintf("%s: %s returned n=%d of %d without an error", c.describe(), what, n, want))
			return false
		}
	case err == io.EOF:
		// EOF is right iff the read reached the end of the file; it
		// must then have delivered everything up to the end.
		if off+want < size || off+int64(n) != size {
			p.violate("C15/read-eof", fmt.Sprintf("%s: %s returned n=%d io.EOF at offset %d, file size is %d", c.describe(), what, n, off, size))
			return false
		}
	default:
		failed = true
		p.needExcuse(c, err)
	}
	if err == nil && off+want > size {
		p.violate("C15/read-eof", fmt.Sprintf("%s: %s of %d bytes at offset %d succeeded without io.EOF, file size is %d", c.describe(), what, want, off, size))
		return false
	}
	if n > 0 && !p.compare(c, fm, int(off), buf[:n], what) {
		return false
	}
	return failed
}

func (p *pass) execTrunc(c *opCtx, o *op, fm *fileModel) bool {
	w := p.w
	c.begin(o, fm, fm.gen)
	defer c.end()
	old := int64(len(fm.data))
	var grow int64
	if o.size > old {
		grow = o.size - old
		c.pendBytesHi = grow
	} else if o.size >= 0 {
		c.pendBytesLo = o.size - old
	}
	// What the discarded range may read as if the truncation fails half
	// way: the old data, zeros, or the hole source's original contents.
	var hsOld []byte
	if o.size >= 0 && o.size < old && fm.hs != nil {
		hsOld = make([]byte, old-o.size)
		for i := range hsOld {
			hsOld[i] = fm.hs.at(o.size + int64(i))
		}
	}
	var err error
	p.guarded(o.String(), func() { err = fm.f.Truncate(o.size) })
	if w.k.Failed() {
		return false
	}
	w.k.Annotate("%s %s gen=%d -> err=%v excuses=%v", p.name, o, fm.gen, err, c.excuses)
	if o.size < 0 {
		if !isInvalidArgument(err) {
			p.violate("C15/bad-return", fmt.Sprintf("%s with a negative size returned err=%v", c.describe(), err))
		}
		return false
	}
	if p.checkQuota(c, grow, 0, err) {
		return true
	}
	ss := int64(w.cfg.ss)
	firstDropped := int((o.size + ss - 1) / ss)
	if err != nil {
		p.needExcuse(c, err)
		if o.size < old {
			w.k.Probe("failed-shrink")
			for i := o.size; i < old; i++ {
				alts := []byte{0}
				if hsOld != nil && hsOld[i-o.size] != 0 {
					alts = append(alts, hsOld[i-o.size])
				}
				fm.alt[int(i)] = append(fm.alt[int(i)], alts...)
			}
			fm.dropSectorsFrom(firstDropped, true)
		}
		return true
	}
	if o.size < old {
		w.k.Probe("shrink")
		if o.size%ss != 0 && fm.alloc[int(o.size/ss)] {
			w.k.Probe("shrink-into-allocated-sector")
		}
		fm.shrunk = true
	} else if o.size > old && fm.shrunk {
		w.k.Probe("regrow-after-shrink")
	}
	fm.resize(int(o.size))
	fm.dropSectorsFrom(firstDropped, false)
	return false
}

func (p *pass) execSeek(c *opCtx, o *op, fm *fileModel) bool {
	w := p.w
	c.begin(o, fm, fm.gen)
	defer c.end()
	var res int64
	var err error
	p.guarded(o.String(), func() { res, err = fm.f.GetNextRegionOffset(o.off, o.region) })
	if w.k.Failed() {
		return false
	}
	w.k.Annotate("%s %s gen=%d -> %d err=%v excuses=%v", p.name, o, fm.gen, res, err, c.excuses)
	size := int64(len(fm.data))
	if o.off < 0 {
		if !isInvalidArgument(err) {
			p.violate("C15/bad-return", fmt.Sprintf("%s with a negative offset returned %d err=%v", c.describe(), res, err))
		}
		return false
	}
	if o.off >= size {
		if err != io.EOF {
			p.violate("C15/seek-unsound", fmt.Sprintf("%s at or past the end of a file of %d bytes returned %d err=%v instead of io.EOF", c.describe(), size, res, err))
		}
		return false
	}
	if err != nil && err != io.EOF {
		p.needExcuse(c, err)
		return true
	}
	w.k.Probe("region-seek-inside-file")
	// Soundness: whatever the call reports to be a hole must read as zeros.
	firstNonZero := func(from, to int64) int64 {
		for i := from; i < to; i++ {
			if !fm.mayBeZero(int(i)) {
				return i
			}
		}
		return -1
	}
	if o.region == filesystem.Data {
		end := res
		if err == io.EOF {
			end = size
		} else if res < o.off || res >= size {
			p.violate("C15/seek-unsound", fmt.Sprintf("%s returned %d, outside [%d,%d)", c.describe(), res, o.off, size))
			return false
		}
		if i := firstNonZero(o.off, end); i >= 0 {
			p.violate("C15/seek-unsound", fmt.Sprintf("%s returned %d err=%v, i.e. [%d,%d) is a hole, but the byte at %d is %#02x", c.describe(), res, err, o.off, end, i, fm.data[i]))
			return false
		}
	} else {
		if err == io.EOF {
			p.violate("C15/seek-unsound", fmt.Sprintf("%s returned io.EOF inside a file of %d bytes (the end of the file is an implicit hole)", c.describe(), size))
			return false
		}
		if res < o.off || res > size {
			p.violate("C15/seek-unsound", fmt.Sprintf("%s returned %d, outside [%d,%d]", c.describe(), res, o.off, size))
			return false
		}
		if res < size && !fm.mayBeZero(int(res)) {
			p.violate("C15/seek-unsound", fmt.Sprintf("%s returned %d as the start of a hole, but the byte there is %#02x", c.describe(), res, fm.data[res]))
			return false
		}
	}
	// Informational: compare with a sector-granular prediction.
	if len(fm.maybe) == 0 && len(fm.alt) == 0 {
		if want, wantErr := p.predictSeek(fm, o.off, o.region); want != res || wantErr != err {
			w.r.Count("seek-differs-from-sector-granular-prediction", 1)
		} else {
			w.r.Count("seek-matches-sector-granular-prediction", 1)
		}
	}
	return false
}

func (p *pass) predictSeek(fm *fileModel, off int64, region filesystem.RegionType) (int64, error) {
	ss := int64(p.w.cfg.ss)
	size := int64(len(fm.data))
	isData := func(i int64) bool {
		return fm.alloc[int(i/ss)] || (fm.hs != nil && i < int64(fm.hs.l) && fm.hs.spec.isData(int(i)))
	}
	for i := off; i < size; i++ {
		if isData(i) == (region == filesystem.Data) {
			return i, nil
		}
	}
	if region == filesystem.Data {
		return 0, io.EOF
	}
	return size, nil
}

func (p *pass) execClose(c *opCtx, o *op, fm *fileModel) bool {
	w := p.w
	// A file is always read back completely before it disappears.
	c.begin(nil, fm, fm.gen)
	p.verifyFile(c, fm, "before Close")
	c.end()
	if w.k.Failed() {
		return false
	}
	c.begin(o, fm, fm.gen)
	defer c.end()
	c.pendBytesLo, c.pendFilesLo = -int64(len(fm.data)), -1
	var err error
	p.guarded(o.String(), func() { err = fm.f.Close() })
	if w.k.Failed() {
		return false
	}
	w.k.Annotate("%s %s gen=%d -> err=%v excuses=%v", p.name, o, fm.gen, err, c.excuses)
	if err != nil {
		p.needExcuse(c, err)
	}
	if fm.hs != nil && fm.hs.closed != 1 {
		w.r.Count("holesource-close-count-not-1", 1)
	}
	if fm.verifiedData > 0 {
		p.filesVerified++
	}
	p.slots[o.slot] = nil
	p.filesClosed++
	return err != nil
}

// --- checks that are not operations of the workload ---------------------------------------

func (p *pass) checkLen(c *opCtx, fm *fileModel) {
	var n int64
	var err error
	p.guarded("Len", func() { n, err = fm.f.Len() })
	if p.w.k.Failed() {
		return
	}
	if err != nil || n != int64(len(fm.data)) {
		p.violate("C15/size-mismatch", fmt.Sprintf("%s: Len() of file generation %d returned %d err=%v, model size is %d", c.name, fm.gen, n, err, len(fm.data)))
	}
}

// verifyFile reads the whole file through the real stack (seams suspended)
// and compares it with the model.
func (p *pass) verifyFile(c *opCtx, fm *fileModel, when string) {
	c.suspend++
	defer func() { c.suspend-- }()
	saveFile, saveGen := c.file, c.fileGen
	c.file, c.fileGen = fm, int32(fm.gen)
	defer func() { c.file, c.fileGen = saveFile, saveGen }()
	c.foreign = ""
	size := len(fm.data)
	// Read in two pieces around a boundary that moves with the file.
	cut := 0
	if size > 0 {
		cut = (fm.gen*7 + size/2) % (size + 1)
	}
	for _, r := range [][2]int{{0, cut}, {cut, size}} {
		if r[1] == r[0] {
			continue
		}
		buf := make([]byte, r[1]-r[0])
		var n int
		var err error
		p.guarded("verification ReadAt", func() { n, err = fm.f.ReadAt(buf, int64(r[0])) })
		if p.w.k.Failed() {
			return
		}
		what := fmt.Sprintf("read-back of [%d,%d) %s", r[0], r[1], when)
		if err != nil && err != io.EOF {
			p.violate("C15/unexpected-error", fmt.Sprintf("%s: %s of file generation %d failed with %q although fault injection is suspended", c.name, what, fm.gen, err))
			return
		}
		if p.judgeRead(c, fm, int64(r[0]), buf, n, err, what); p.w.k.Failed() {
			return
		}
	}
	p.w.r.Count("bytes-read-back", size)
}

func (p *pass) verifyOwned(c *opCtx, when string) {
	for _, fm := range p.slots {
		if fm == nil || p.owner(fm.slot) != c {
			continue
		}
		p.verifyFile(c, fm, when)
		if p.w.k.Failed() {
			return
		}
	}
	p.w.k.Probe("full-read-back-after-failed-op")
}

// othersInflight reports whether another actor is in the middle of an
// operation (its sectors and quota are then in flux).
func (p *pass) othersInflight(c *opCtx) bool {
	for _, o := range p.ctxs {
		if o != c && o.inflight {
			return true
		}
	}
	return false
}

// checkAccounting: the number of outstanding device sectors must equal the
// number of sectors the files' contents occupy (sectors are returned on
// truncate and by failed operations, not only at close).
func (p *pass) checkAccounting(c *opCtx, when string) {
	if p.othersInflight(c) {
		return
	}
	lo, hi := 0, 0
	for _, fm := range p.slots {
		if fm != nil {
			lo += len(fm.alloc)
			hi += len(fm.alloc) + len(fm.maybe)
		}
	}
	if out := len(p.alloc.out); out < lo || out > hi {
		var per []string
		for _, fm := range p.slots {
			if fm != nil {
				per = append(per, fmt.Sprintf("gen%d:%d..%d", fm.gen, len(fm.alloc), len(fm.alloc)+len(fm.maybe)))
			}
		}
		p.violate("C15/sector-accounting", fmt.Sprintf("%s: %d device sectors are outstanding, the open files' contents occupy %d..%d sectors (%s), sector size %d: sectors were leaked or not returned by Truncate/a failed operation", when, out, lo, hi, strings.Join(per, " "), p.w.cfg.ss))
	}
}

// probeQuotaOn measures the remaining byte quota from the outside: holding
// one byte more than what the model says remains must be refused, holding
// exactly what remains must be accepted. fm is the file used for the
// measurement (grown by Truncate and shrunk back); without one a temporary
// file is created. suspect is the number of bytes reserved by NewFile calls
// that failed in the base pool and whose release has not been confirmed yet.
func (p *pass) probeQuotaOn(c *opCtx, fm *fileModel, when string, suspect int64) {
	if p.othersInflight(c) {
		return
	}
	bLo, _, fLo, _ := p.quotaUsed(c)
	if fm == nil && fLo >= int64(p.maxFiles) {
		return
	}
	remaining := int64(p.maxBytes) - bLo
	if remaining < 0 {
		panic(simsync.HarnessError{Msg: "quota model negative"})
	}
	c.suspend++
	defer func() { c.suspend-- }()
	saveFile, saveGen := c.file, c.fileGen
	c.file, c.fileGen = fm, -1
	if fm != nil {
		c.fileGen = int32(fm.gen)
	}
	defer func() { c.file, c.fileGen = saveFile, saveGen }()
	tryHold := func(extra int64) (err error) {
		p.guarded("quota probe", func() {
			if fm != nil {
				size := int64(len(fm.data))
				if err = fm.f.Truncate(size + extra); err == nil {
					if e := fm.f.Truncate(size); e != nil {
						p.violate("C15/unexpected-error", fmt.Sprintf("%s: quota probe: Truncate(%d) back failed with %q", when, size, e))
					}
				}
				return
			}
			var f filesystem.FileReadWriter
			if f, err = p.qpool.NewFile(pool.ZeroHoleSource, uint64(extra)); err == nil {
				if e := f.Close(); e != nil {
					p.violate("C15/unexpected-error", fmt.Sprintf("%s: quota probe: Close failed with %q", when, e))
				}
			}
		})
		return
	}
	state := fmt.Sprintf("the model says %d of %d bytes are in use", bLo, p.maxBytes)
	p.w.k.Probe("quota-probe")
	e1 := tryHold(remaining + 1)
	if p.w.k.Failed() {
		return
	}
	if e1 == nil {
		p.violate("C15/quota-exceeded", fmt.Sprintf("%s: quota probe: holding %d more bytes was accepted although %s: quota was released twice or too much", when, remaining+1, state))
		return
	}
	if !isQuotaErr(e1) {
		p.violate("C15/unexpected-error", fmt.Sprintf("%s: quota probe failed with %q", when, e1))
		return
	}
	e2 := tryHold(remaining)
	if p.w.k.Failed() {
		return
	}
	if e2 == nil {
		p.suspect = 0
		return
	}
	if !isQuotaErr(e2) {
		p.violate("C15/unexpected-error", fmt.Sprintf("%s: quota probe failed with %q", when, e2))
		return
	}
	if suspect > 0 && suspect <= remaining {
		e3 := tryHold(remaining - suspect)
		e4 := tryHold(remaining - suspect + 1)
		if p.w.k.Failed() {
			return
		}
		if e3 == nil && isQuotaErr(e4) {
			// Exactly the bytes reserved by the failed NewFile calls
			// are missing (defect fixed in /repo by da59b75; kept
			// as a rule of its own because the diagnosis is exact).
			p.violate("C15/quota-not-released-after-failed-newfile", fmt.Sprintf("%s: NewFile(size>0) failed inside the base pool and the %d bytes reserved for it were never released: afterwards holding %d more bytes is refused (%v) although %s; exactly %d bytes are missing (holding %d is accepted, %d is refused). quotaEnforcingFilePool.NewFile must release bytesRemaining as well as filesRemaining when base.NewFile fails", when, suspect, remaining, e2, state, suspect, remaining-suspect, remaining-suspect+1))
			return
		}
	}
	p.violate("C15/quota-leak", fmt.Sprintf("%s: quota probe: holding %d more bytes was refused (%v) although %s: quota was not released", when, remaining, e2, state))
}

func sortedSectors(m map[uint32]int32) []string {
	var ks []int
	for s := range m {
		ks = append(ks, int(s))
	}
	sort.Ints(ks)
	var out []string
	for _, s := range ks {
		out = append(out, fmt.Sprintf("%d(gen%d)", s, m[uint32(s)]))
	}
	return out
}

package w8

import (
	"fmt"
	"io"

	"github.com/buildbarn/bb-remote-execution/pkg/filesystem/pool"
	"github.com/buildbarn/bb-storage/pkg/filesystem"
	"google.golang.org/grpc/codes"
	"google.golang.org/grpc/status"
)

// Every simulated seam of this world (block device, hole source, sector
// allocator wrapper, base pool wrapper) reports its calls to pass.seam, which
// decides - from the enumeration plan, the tape or the kernel - whether the
// call proceeds normally (0) or with fault option i.

func injected(what string) error {
	return status.Error(codes.Unavailable, "injected fault: "+what)
}

// --- FakeBlockDevice ---------------------------------------------------------

// fakeDevice is a byte array implementing blockdevice.BlockDevice. Besides the
// contents it remembers, per byte, the generation number of the file on whose
// behalf the byte was written, so that foreign bytes are attributable.
type fakeDevice struct {
	p        *pass
	data     []byte
	writer   []int32 // file generation that last wrote the byte, -1 = never
	eofAtEnd bool    // legal io.ReaderAt behaviour: (len(p), io.EOF) when a read ends at the device's end
	reads    int
	writes   int
}

func newFakeDevice(p *pass, size int, eofAtEnd bool) *fakeDevice {
	d := &fakeDevice{p: p, data: make([]byte, size), writer: make([]int32, size), eofAtEnd: eofAtEnd}
	for i := range d.data {
		// Never-written device bytes are recognisable garbage, not zeros.
		d.data[i] = 0xEE
		d.writer[i] = -1
	}
	return d
}

// checkAccess verifies that [off, off+n) lies on the device and inside
// sectors that are currently allocated to the file the calling operation
// works on.
func (d *fakeDevice) checkAccess(what string, off int64, n int) bool {
	p := d.p
	if off < 0 || n < 0 || off+int64(n) > int64(len(d.data)) {
		p.violate("C15/device-out-of-bounds", fmt.Sprintf("%s of %d bytes at device offset %d, device has %d bytes (%d sectors of %d)", what, n, off, len(d.data), p.w.cfg.nsec, p.w.cfg.ss))
		return false
	}
	if n == 0 {
		return true
	}
	c := p.ctx()
	ss := int64(p.w.cfg.ss)
	for s := off / ss; s <= (off+int64(n)-1)/ss; s++ {
		sector := uint32(s + 1)
		owner, ok := p.alloc.out[sector]
		if !ok {
			p.violate("C15/foreign-sector-access", fmt.Sprintf("%s on behalf of %s touches device sector %d, which is not allocated to anyone (free sectors can be handed to another file at any time)", what, c.describe(), sector))
			return false
		}
		if owner != c.gen() {
			p.violate("C15/foreign-sector-access", fmt.Sprintf("%s on behalf of %s touches device sector %d, which was handed out to file generation %d", what, c.describe(), sector, owner))
			return false
		}
	}
	return true
}

func (d *fakeDevice) ReadAt(b []byte, off int64) (int, error) {
	if !d.checkAccess("ReadAt", off, len(b)) {
		return 0, status.Error(codes.Internal, "harness: illegal device access")
	}
	d.reads++
	n := len(b)
	var err error
	switch d.p.seam("dev-read", "ok", "dev-read-error", "dev-short-read") {
	case 1:
		return 0, injected("device read error")
	case 2:
		n = len(b) / 2
		err = injected("device short read")
	}
	c := d.p.ctx()
	for i := 0; i < n; i++ {
		b[i] = d.data[off+int64(i)]
		if w := d.writer[off+int64(i)]; w != c.gen() {
			c.foreign = fmt.Sprintf("device byte %d last written by file generation %d", off+int64(i), w)
		}
	}
	if err == nil && d.eofAtEnd && off+int64(n) == int64(len(d.data)) {
		err = io.EOF
		d.p.w.k.Probe("device-read-eof-at-end")
	}
	return n, err
}

func (d *fakeDevice) WriteAt(b []byte, off int64) (int, error) {
	if !d.checkAccess("WriteAt", off, len(b)) {
		return 0, status.Error(codes.Internal, "harness: illegal device access")
	}
	d.writes++
	n := len(b)
	var err error
	switch d.p.seam("dev-write", "ok", "dev-write-error", "dev-short-write") {
	case 1:
		return 0, injected("device write error")
	case 2:
		n = len(b) / 2
		err = injected("device short write")
	}
	g := d.p.ctx().gen()
	for i := 0; i < n; i++ {
		d.data[off+int64(i)] = b[i]
		d.writer[off+int64(i)] = g
	}
	return n, err
}

func (d *fakeDevice) Sync() error  { return nil }
func (d *fakeDevice) Close() error { return nil }

// --- FakeHoleSource ----------------------------------------------------------

// hsSpec describes the contents of a hole source: l bytes made of alternating
// extents of ext bytes of holes (zeros) and data (non-zero pattern bytes),
// followed by an infinite stream of zeros.
type hsSpec struct {
	kind  int // 0 = pool.ZeroHoleSource (real), 1 = fake without data, 2 = fake with data extents
	l     int
	ext   int
	phase int
}

func (s hsSpec) isData(i int) bool {
	if s.kind != 2 || i >= s.l || s.ext <= 0 {
		return false
	}
	return (i/s.ext+s.phase)%2 == 1
}

func (s hsSpec) byteAt(gen, i int) byte {
	if !s.isData(i) {
		return 0
	}
	return 1 + byte((gen*29+i*3+101)%255)
}

type fakeHoleSource struct {
	p      *pass
	spec   hsSpec
	gen    int
	l      int // current length; shrinks on Truncate
	closed int
}

func (h *fakeHoleSource) at(i int64) byte {
	if i >= int64(h.l) {
		return 0
	}
	return h.spec.byteAt(h.gen, int(i))
}

func (h *fakeHoleSource) ReadAt(b []byte, off int64) (int, error) {
	if h.closed > 0 {
		h.p.violate("C15/holesource-use-after-close", fmt.Sprintf("ReadAt on the closed hole source of file generation %d", h.gen))
	}
	n := len(b)
	var err error
	switch h.p.seam("hs-read", "ok", "hs-read-error", "hs-short-read", "hs-short-read-nil") {
	case 1:
		return 0, injected("hole source read error")
	case 2:
		n = len(b) / 2
		err = injected("hole source short read")
	case 3:
		n = len(b) / 2
		if n == len(b) {
			// A zero-length read cannot be short.
			break
		}
	}
	for i := 0; i < n; i++ {
		b[i] = h.at(off + int64(i))
	}
	return n, err
}

func (h *fakeHoleSource) Truncate(size int64) error {
	switch h.p.seam("hs-truncate", "ok", "hs-truncate-error", "hs-truncate-error-after") {
	case 1:
		return injected("hole source truncate error")
	case 2:
		if size < int64(h.l) {
			h.l = int(size)
		}
		return injected("hole source truncate error after effect")
	}
	if size < int64(h.l) {
		h.l = int(size)
	}
	return nil
}

func (h *fakeHoleSource) GetNextRegionOffset(off int64, regionType filesystem.RegionType) (int64, error) {
	if h.p.seam("hs-seek", "ok", "hs-seek-error") == 1 {
		return 0, injected("hole source seek error")
	}
	if off < 0 {
		return 0, status.Error(codes.InvalidArgument, "negative offset")
	}
	if off >= int64(h.l) {
		return 0, io.EOF
	}
	i := int(off)
	switch regionType {
	case filesystem.Data:
		for i < h.l && !h.spec.isData(i) {
			i++
		}
		if i >= h.l {
			return 0, io.EOF
		}
		return int64(i), nil
	case filesystem.Hole:
		for i < h.l && h.spec.isData(i) {
			i++
		}
		return int64(i), nil
	}
	panic("unknown region type")
}

func (h *fakeHoleSource) Close() error {
	h.closed++
	if h.p.seam("hs-close", "ok", "hs-close-error") == 1 {
		return injected("hole source close error")
	}
	return nil
}

// --- SectorAllocator wrapper ---------------------------------------------------

// trackingAllocator wraps the real bitmap allocator: it injects allocation
// failures, forces fragmentation (by asking for fewer sectors than the caller
// would accept, which the interface explicitly allows the allocator to do) and
// keeps the set of outstanding sectors, so that a sector handed out twice, freed
// twice or leaked is seen at the call that does it.
type trackingAllocator struct {
	p     *pass
	base  pool.SectorAllocator
	out   map[uint32]int32 // outstanding sector -> file generation it was handed to
	calls int
	sweep bool // conservation sweep: no fragmentation forcing
}

func (a *trackingAllocator) AllocateContiguous(maximum int) (uint32, int, error) {
	p := a.p
	if maximum <= 0 {
		p.violate("C15/bad-allocation-request", fmt.Sprintf("AllocateContiguous(%d) by %s", maximum, p.ctx().describe()))
		return 0, 0, status.Error(codes.Internal, "harness: bad allocation request")
	}
	if p.seam("alloc", "ok", "alloc-error") == 1 {
		return 0, 0, injected("sector allocator failure")
	}
	a.calls++
	lim := maximum
	if !a.sweep {
		switch p.w.cfg.frag {
		case 1:
			lim = 1
		case 2:
			if l := 1 + a.calls%3; l < lim {
				lim = l
			}
		}
	}
	first, n, err := a.base.AllocateContiguous(lim)
	c := p.ctx()
	if err != nil {
		if len(a.out) < p.w.cfg.nsec {
			rule := "C15/spurious-exhaustion"
			if a.sweep {
				rule = "C15/capacity-not-restored"
			}
			p.violate(rule, fmt.Sprintf("allocator refused to allocate (%v) although only %d of %d sectors are outstanding (%s)", err, len(a.out), p.w.cfg.nsec, c.describe()))
		} else {
			p.w.k.Probe("device-exhausted")
			c.excuse("exhausted")
		}
		return first, n, err
	}
	if n < 1 || n > lim || first < 1 || int(first)+n-1 > p.w.cfg.nsec {
		p.violate("C15/bad-allocation", fmt.Sprintf("AllocateContiguous(%d) returned first=%d count=%d on a device of %d sectors", lim, first, n, p.w.cfg.nsec))
		return first, n, err
	}
	if n < maximum {
		p.w.k.Probe("fragmented-allocation")
	}
	for s := first; s < first+uint32(n); s++ {
		if g, dup := a.out[s]; dup {
			p.violate("C15/sector-handed-out-twice", fmt.Sprintf("sector %d handed out to %s while still allocated to file generation %d", s, c.describe(), g))
			return first, n, err
		}
		a.out[s] = c.gen()
	}
	if len(a.out) == p.w.cfg.nsec {
		p.w.k.Probe("device-full")
	}
	return first, n, nil
}

// Frees are validated against the outstanding set first, then forwarded, and
// only then removed from the set: the real allocator's Lock is a park point,
// so the sectors stay "outstanding" until the real allocator has them back.
func (a *trackingAllocator) valid(s uint32, how string) bool {
	if _, ok := a.out[s]; !ok {
		a.p.violate("C15/sector-freed-twice", fmt.Sprintf("%s frees sector %d which is not allocated (%s)", how, s, a.p.ctx().describe()))
		return false
	}
	return true
}

func (a *trackingAllocator) FreeContiguous(first uint32, count int) {
	if first == 0 || count <= 0 {
		a.p.violate("C15/bad-free", fmt.Sprintf("FreeContiguous(%d, %d)", first, count))
		return
	}
	for s := first; s < first+uint32(count); s++ {
		if !a.valid(s, "FreeContiguous") {
			return
		}
	}
	a.base.FreeContiguous(first, count)
	for s := first; s < first+uint32(count); s++ {
		delete(a.out, s)
	}
}

func (a *trackingAllocator) FreeList(sectors []uint32) {
	seen := map[uint32]bool{}
	for _, s := range sectors {
		if s == 0 {
			continue
		}
		if seen[s] {
			a.p.violate("C15/sector-freed-twice", fmt.Sprintf("FreeList contains sector %d twice (%s)", s, a.p.ctx().describe()))
			return
		}
		seen[s] = true
		if !a.valid(s, "FreeList") {
			return
		}
	}
	a.base.FreeList(sectors)
	for _, s := range sectors {
		if s != 0 {
			delete(a.out, s)
		}
	}
}

// --- base FilePool wrapper -----------------------------------------------------

// faultyPool sits between the quota enforcing pool and the block device backed
// pool and makes NewFile, and WriteAt/Truncate of the files it hands out, fail
// before they have any effect.
type faultyPool struct {
	p    *pass
	base pool.FilePool
}

func (fp *faultyPool) NewFile(holeSource pool.HoleSource, size uint64) (filesystem.FileReadWriter, error) {
	if fp.p.seam("base-newfile", "ok", "base-newfile-error") == 1 {
		fp.p.ctx().baseNewFileFailed = true
		return nil, injected("base pool NewFile failure")
	}
	f, err := fp.base.NewFile(holeSource, size)
	if err != nil {
		return nil, err
	}
	return &faultyFile{FileReadWriter: f, p: fp.p}, nil
}

type faultyFile struct {
	filesystem.FileReadWriter
	p *pass
}

func (f *faultyFile) WriteAt(b []byte, off int64) (int, error) {
	if f.p.seam("base-write", "ok", "base-write-error") == 1 {
		return 0, injected("base file write failure")
	}
	return f.FileReadWriter.WriteAt(b, off)
}

func (f *faultyFile) Truncate(size int64) error {
	if f.p.seam("base-truncate", "ok", "base-truncate-error") == 1 {
		return injected("base file truncate failure")
	}
	return f.FileReadWriter.Truncate(size)
}

package w8

import (
	"testing"

	"github.com/buildbarn/bb-remote-execution/pkg/verifsim/simrun"
)

func TestSim(t *testing.T) {
	simrun.Main(t, map[string]simrun.World{"C15": World("C15")})
}

package w4

import (
	"testing"

	"github.com/buildbarn/bb-remote-execution/pkg/verifsim/simrun"
)

func TestSim(t *testing.T) {
	simrun.Main(t, map[string]simrun.World{"C09": World("C09"), "C11": WorldC11(), "C12": WorldC12()})
}

package w4

import (
	"context"
	"crypto/sha256"
	"encoding/hex"
	"fmt"
	"io"
	"sort"
	"strings"
	"sync"

	remoteexecution "github.com/bazelbuild/remote-apis/build/bazel/remote/execution/v2"
	"github.com/buildbarn/bb-remote-execution/pkg/verifsim/simsync"
	"github.com/buildbarn/bb-storage/pkg/blobstore"
	"github.com/buildbarn/bb-storage/pkg/blobstore/buffer"
	"github.com/buildbarn/bb-storage/pkg/blobstore/slicing"
	"github.com/buildbarn/bb-storage/pkg/digest"
	"google.golang.org/grpc/codes"
	"google.golang.org/grpc/status"
)

// Fault kinds of one storage call.
const (
	fNone         = iota
	fErrBefore    // call fails, nothing happened
	fErrAfter     // effect applied, acknowledgement lost (call fails)
	fCancelBefore // context cancelled while the call was in flight; no effect; call fails
	fCancelAfter  // context cancelled while the call was in flight; effect applied; call fails
	fCancelLater  // call succeeds; the context is cancelled before the caller continues
	nFaultKinds
)

var faultNames = []string{"none", "err-before-effect", "err-after-effect", "cancel-before-effect", "cancel-after-effect", "cancel-after-return"}

const maxBlobSize = 1 << 20

// request is one storage call that is in flight: the calling goroutine (an
// actor, or a goroutine started by errgroup which the kernel does not know)
// blocks on done until the controller decides what happens to the call.
type request struct {
	store  string // "cas" or "ac"
	op     string // "get", "put", "findmissing"
	ctx    context.Context
	d      digest.Digest
	set    digest.Set
	buf    buffer.Buffer
	key    string
	arrive int
	done   chan response
	result *remoteexecution.ActionResult
}

type response struct {
	err     error
	data    []byte
	missing digest.Set
}

// callRecord is what the oracle remembers of one completed storage call.
type callRecord struct {
	idx    int
	store  string
	op     string
	key    string
	fault  int
	err    error
	effect bool
}

func (c callRecord) String() string {
	e := "ok"
	if c.err != nil {
		e = "ERR(" + status.Code(c.err).String() + ")"
	}
	return fmt.Sprintf("#%d %s fault=%s effect=%v -> %s", c.idx, c.key, faultNames[c.fault], c.effect, e)
}

// store is the fake CAS and AC of one execution.
type store struct {
	k  *simsync.Kernel
	df digest.Function

	// Policy and observation hooks, set by the world that owns the store.
	single          func(idx int, r *request) int // planned fault of the idx-th completed call (fNone: none); may be nil
	randomRate      int                           // > 0: every call may also be completed with one of randomKinds (event weight randomRate, against 10)
	randomKinds     []int
	errOnPutOK      func() bool                                         // may an error of its own be injected into a CAS Put now? (nil: yes)
	cancel          func(r *request)                                    // cancels the context of the execution that issued r
	onACWrite       func(r *request, res *remoteexecution.ActionResult) // called at every attempt to write the AC
	onCall          func(rec callRecord)                                // called for every completed call
	acWrites        int
	allowDuplicates bool

	mu      sync.Mutex
	pending []*request
	arrived int

	cas map[string][]byte // hash-size -> contents
	ac  map[string]*remoteexecution.ActionResult

	calls      []callRecord
	maxPending int
}

func newStore(k *simsync.Kernel, df digest.Function) *store {
	return &store{k: k, df: df, cas: map[string][]byte{}, ac: map[string]*remoteexecution.ActionResult{}}
}

func blobKey(d digest.Digest) string { return d.GetKey(digest.KeyWithoutInstance) }

func shortKey(k string) string {
	if len(k) > 12 {
		return k[:8] + k[len(k)-4:]
	}
	return k
}

// preload stores a blob without going through a call.
func (s *store) preload(df digest.Function, data []byte) digest.Digest {
	d := computeDigest(df, data)
	s.cas[blobKey(d)] = data
	return d
}

func computeDigest(df digest.Function, data []byte) digest.Digest {
	g := df.NewGenerator(int64(len(data)))
	if _, err := g.Write(data); err != nil {
		panic(simsync.HarnessError{Msg: err.Error()})
	}
	return g.Sum()
}

func (s *store) hasDigestProto(p *remoteexecution.Digest) bool {
	_, ok := s.getProtoBlob(p)
	return ok
}

func (s *store) getProtoBlob(p *remoteexecution.Digest) ([]byte, bool) {
	d, err := s.df.NewDigestFromProto(p)
	if err != nil {
		return nil, false
	}
	data, ok := s.cas[blobKey(d)]
	return data, ok
}

// submit hands a call to the controller and waits for its decision.
func (s *store) submit(r *request) response {
	r.done = make(chan response, 1)
	s.mu.Lock()
	r.arrive = s.arrived
	s.arrived++
	s.pending = append(s.pending, r)
	s.mu.Unlock()
	return <-r.done
}

// events lists the calls the controller may complete now.
func (s *store) events() []simsync.Event {
	s.mu.Lock()
	reqs := append([]*request(nil), s.pending...)
	s.mu.Unlock()
	sort.Slice(reqs, func(i, j int) bool {
		if reqs[i].key != reqs[j].key {
			return reqs[i].key < reqs[j].key
		}
		return reqs[i].arrive < reqs[j].arrive
	})
	for i := 1; i < len(reqs); i++ {
		if reqs[i].key == reqs[i-1].key || strings.HasPrefix(reqs[i].key, reqs[i-1].key+" #") {
			if !s.allowDuplicates {
				panic(simsync.HarnessError{Msg: "two identical storage calls in flight at once: " + reqs[i].key})
			}
			// Calls of two executions that overlap on one thread; they
			// arrived in different steps, so their order is reproducible.
			reqs[i].key = fmt.Sprintf("%s #%d", strings.SplitN(reqs[i].key, " #", 2)[0], reqs[i].arrive)
		}
	}
	if len(reqs) > s.maxPending {
		s.maxPending = len(reqs)
	}
	semFree := len(reqs) == 0 || s.errOnPutOK == nil || s.errOnPutOK()
	var evs []simsync.Event
	for _, r := range reqs {
		r := r
		evs = append(evs, simsync.Event{Key: "storage " + r.key, Weight: 10, Fire: func() { s.complete(r, -1) }})
		if s.randomRate > 0 && s.k.FaultsOn {
			for _, f := range s.randomKinds {
				if !faultApplies(r, f) {
					continue
				}
				if (f == fErrBefore || f == fErrAfter) && r.store == "cas" && r.op == "put" && !semFree {
					// See execution.uploadSemaphoreFree.
					continue
				}
				f := f
				evs = append(evs, simsync.Event{Key: "storage " + r.key + " =" + faultNames[f], Weight: s.randomRate, Fire: func() { s.complete(r, f) }})
			}
		}
	}
	return evs
}

func faultApplies(r *request, f int) bool {
	switch f {
	case fErrAfter, fCancelAfter:
		return r.op == "put"
	}
	return true
}

// complete runs on the controller: it decides the outcome of the call,
// applies its effect and releases the caller.
func (s *store) complete(r *request, forced int) {
	k := s.k
	s.mu.Lock()
	for i, p := range s.pending {
		if p == r {
			s.pending = append(s.pending[:i], s.pending[i+1:]...)
			break
		}
	}
	s.mu.Unlock()
	idx := len(s.calls)
	fault := fNone
	if forced >= 0 {
		fault = forced
	} else if s.single != nil {
		fault = s.single(idx, r)
		if !faultApplies(r, fault) {
			fault = fErrBefore
		}
	}
	rec := callRecord{idx: idx, store: r.store, op: r.op, key: r.key, fault: fault}
	var resp response
	ctxErr := r.ctx.Err()
	var parseErr error
	if r.store == "ac" && r.op == "put" {
		// The oracle looks at every attempt to write the Action Cache,
		// whatever is going to happen to the call.
		m, err := r.buf.ToProto(&remoteexecution.ActionResult{}, maxBlobSize)
		r.buf = nil
		if err != nil {
			parseErr = err
		} else {
			r.result = m.(*remoteexecution.ActionResult)
			if s.onACWrite != nil {
				s.onACWrite(r, r.result)
			}
		}
	}
	switch {
	case parseErr != nil:
		resp.err = parseErr
		fault = fNone
	case ctxErr != nil:
		// A call made with a context that is already done fails without
		// reaching the server, as a gRPC client would.
		if r.buf != nil {
			r.buf.Discard()
		}
		resp.err = status.FromContextError(ctxErr).Err()
		rec.fault = fNone
		fault = fNone
		k.Probe("call-with-done-context")
	case fault == fErrBefore:
		if r.buf != nil {
			r.buf.Discard()
		}
		resp.err = status.Error(codes.Unavailable, "injected storage failure (before effect)")
	case fault == fCancelBefore:
		if r.buf != nil {
			r.buf.Discard()
		}
		s.cancel(r)
		resp.err = status.Error(codes.Canceled, "context canceled (injected, before effect)")
	default:
		resp = s.apply(r, &rec)
		if resp.err == nil {
			switch fault {
			case fErrAfter:
				resp = response{err: status.Error(codes.Unavailable, "injected storage failure (acknowledgement lost)")}
			case fCancelAfter:
				s.cancel(r)
				resp = response{err: status.Error(codes.Canceled, "context canceled (injected, after effect)")}
			case fCancelLater:
				s.cancel(r)
			}
		}
	}
	if fault != fNone {
		k.FaultsFired[faultNames[fault]+"@"+r.store+"."+r.op]++
	}
	rec.fault = fault
	rec.err = resp.err
	s.calls = append(s.calls, rec)
	if s.onCall != nil {
		s.onCall(rec)
	}
	k.Annotate("%s", rec)
	r.done <- resp
}

// apply performs the effect of a call on the fake storage.
func (s *store) apply(r *request, rec *callRecord) response {
	switch r.store + "." + r.op {
	case "cas.get":
		data, ok := s.cas[blobKey(r.d)]
		if !ok {
			return response{err: status.Errorf(codes.NotFound, "blob %s not found", r.d)}
		}
		return response{data: data}
	case "cas.findmissing":
		b := digest.NewSetBuilder(r.set.Length())
		for _, d := range r.set.Items() {
			if _, ok := s.cas[blobKey(d)]; !ok {
				b.Add(d)
			} else {
				s.k.Probe("findmissing-blob-already-stored")
			}
		}
		if r.set.Length() == 0 {
			s.k.Probe("findmissing-empty-set")
		}
		return response{missing: b.Build()}
	case "cas.put":
		data, err := r.buf.ToByteSlice(maxBlobSize)
		if err != nil {
			s.k.Probe("cas-put-buffer-error")
			return response{err: err}
		}
		sum := sha256.Sum256(data)
		if hex.EncodeToString(sum[:]) != r.d.GetHashString() || int64(len(data)) != r.d.GetSizeBytes() {
			// The buffer claimed to be valid for this digest (a buffer that
			// verifies its checksum would have failed above), so a storage
			// backend stores it as it is: a corrupt blob.
			s.k.Violate("C09/corrupt-blob-stored", fmt.Sprintf("the CAS was handed %d bytes with sha256 %s for Put(%s), in a buffer that does not verify its contents: the blob stored under that digest is corrupt (call %s)", len(data), hex.EncodeToString(sum[:])[:12], r.d, r.key))
		}
		s.cas[blobKey(r.d)] = data
		rec.effect = true
		return response{}
	case "ac.put":
		s.ac[blobKey(r.d)] = r.result
		rec.effect = true
		s.acWrites++
		return response{}
	}
	panic(simsync.HarnessError{Msg: "unknown storage call " + r.store + "." + r.op})
}

// --- blobstore.BlobAccess facades ---------------------------------------------

// fakeCAS is a facade of the store. The instance handed to the caching
// decorator is labelled "historical": the digest of the
// HistoricalExecuteResponse it stores depends on protobuf's map
// serialisation order (ExecuteResponse.server_logs), so it must not appear
// in event keys.
type fakeCAS struct {
	s          *store
	historical bool
	label      string // prefix of event keys (distinguishes the threads of one worker)
}

func (c *fakeCAS) Get(ctx context.Context, d digest.Digest) buffer.Buffer {
	resp := c.s.submit(&request{store: "cas", op: "get", ctx: ctx, d: d, key: c.label + "cas.get " + shortKey(blobKey(d))})
	if resp.err != nil {
		return buffer.NewBufferFromError(resp.err)
	}
	return buffer.NewValidatedBufferFromByteSlice(append([]byte(nil), resp.data...))
}

func (c *fakeCAS) GetFromComposite(ctx context.Context, parentDigest, childDigest digest.Digest, slicer slicing.BlobSlicer) buffer.Buffer {
	return buffer.NewBufferFromError(status.Error(codes.Unimplemented, "not used"))
}

func (c *fakeCAS) Put(ctx context.Context, d digest.Digest, b buffer.Buffer) error {
	key := c.label + "cas.put " + shortKey(blobKey(d))
	if c.historical {
		key = c.label + "cas.put historical-execute-response"
	}
	return c.s.submit(&request{store: "cas", op: "put", ctx: ctx, d: d, buf: b, key: key}).err
}

func (c *fakeCAS) FindMissing(ctx context.Context, digests digest.Set) (digest.Set, error) {
	resp := c.s.submit(&request{store: "cas", op: "findmissing", ctx: ctx, set: digests, key: fmt.Sprintf("%scas.findmissing n=%d", c.label, digests.Length())})
	if resp.err != nil {
		return digest.EmptySet, resp.err
	}
	return resp.missing, nil
}

func (c *fakeCAS) GetCapabilities(ctx context.Context, instanceName digest.InstanceName) (*remoteexecution.ServerCapabilities, error) {
	return nil, status.Error(codes.Unimplemented, "not used")
}

type fakeAC struct {
	s     *store
	label string
}

func (c *fakeAC) Get(ctx context.Context, d digest.Digest) buffer.Buffer {
	return buffer.NewBufferFromError(status.Error(codes.Unimplemented, "not used"))
}

func (c *fakeAC) GetFromComposite(ctx context.Context, parentDigest, childDigest digest.Digest, slicer slicing.BlobSlicer) buffer.Buffer {
	return buffer.NewBufferFromError(status.Error(codes.Unimplemented, "not used"))
}

func (c *fakeAC) Put(ctx context.Context, d digest.Digest, b buffer.Buffer) error {
	return c.s.submit(&request{store: "ac", op: "put", ctx: ctx, d: d, buf: b, key: c.label + "ac.put " + shortKey(blobKey(d))}).err
}

func (c *fakeAC) FindMissing(ctx context.Context, digests digest.Set) (digest.Set, error) {
	return digest.EmptySet, status.Error(codes.Unimplemented, "not used")
}

func (c *fakeAC) GetCapabilities(ctx context.Context, instanceName digest.InstanceName) (*remoteexecution.ServerCapabilities, error) {
	return nil, status.Error(codes.Unimplemented, "not used")
}

// --- recording wrapper around the batching layer --------------------------------
//
// It sits where cmd/bb_worker puts MetricsBlobAccess: between the users of the
// per-thread CAS writer and NewBatchedStoreBlobAccess. It replaces every buffer
// by an instrumented one and records which writes the batching layer
// acknowledged.

type trackedBuffer struct {
	id     int
	key    string
	r      io.ReadCloser
	mu     sync.Mutex
	closes int
	reads  int
	late   int // reads after close
}

func (t *trackedBuffer) Read(p []byte) (int, error) {
	t.mu.Lock()
	if t.closes > 0 {
		t.late++
	}
	t.reads++
	t.mu.Unlock()
	return t.r.Read(p)
}

func (t *trackedBuffer) Close() error {
	t.mu.Lock()
	t.closes++
	first := t.closes == 1
	t.mu.Unlock()
	if first {
		return t.r.Close()
	}
	return nil
}

type recordingWriter struct {
	blobstore.BlobAccess
	x *execution

	mu      sync.Mutex
	buffers []*trackedBuffer
	acked   map[string]bool // writes acknowledged since the last flush
	ackedN  int
	// passThrough leaves the buffers as the code under test built them.
	passThrough bool
}

func (w *recordingWriter) Put(ctx context.Context, d digest.Digest, b buffer.Buffer) error {
	var err error
	if w.passThrough {
		err = w.BlobAccess.Put(ctx, d, b)
	} else {
		w.mu.Lock()
		t := &trackedBuffer{id: len(w.buffers), key: blobKey(d), r: b.ToReader()}
		w.buffers = append(w.buffers, t)
		w.mu.Unlock()
		err = w.BlobAccess.Put(ctx, d, buffer.NewCASBufferFromReader(d, t, buffer.UserProvided))
	}
	w.mu.Lock()
	if err == nil {
		if w.acked[blobKey(d)] {
			w.x.w.k.Probe("same-digest-written-twice-before-flush")
		}
		w.acked[blobKey(d)] = true
		w.ackedN++
	} else {
		w.x.batchPutErrors++
	}
	w.mu.Unlock()
	return err
}

// flusher wraps the flush function returned by NewBatchedStoreBlobAccess.
func (w *recordingWriter) flusher(base func(context.Context) error) func(context.Context) error {
	return func(ctx context.Context) error {
		err := base(ctx)
		x := w.x
		w.mu.Lock()
		acked := make([]string, 0, len(w.acked))
		for k := range w.acked {
			acked = append(acked, k)
		}
		w.acked = map[string]bool{}
		w.mu.Unlock()
		sort.Strings(acked)
		x.flushCalls++
		if err != nil {
			x.flushFailed = true
			x.w.k.Probe("flush-reported-error")
			return err
		}
		x.w.k.Probe("flush-ok")
		// Acked-write model: the flush reported success, so every write the
		// batching layer acknowledged since the previous flush must be stored.
		for _, key := range acked {
			if _, ok := x.store.cas[key]; !ok {
				x.violate("C09/acked-write-lost", fmt.Sprintf("the batching layer acknowledged Put(%s) and the following flush returned nil, but the blob is not in the CAS", shortKey(key)))
			}
		}
		return nil
	}
}

package w4

import (
	"io"
	"sync"

	"github.com/buildbarn/bb-remote-execution/pkg/filesystem/pool"
	"github.com/buildbarn/bb-storage/pkg/filesystem"
	"google.golang.org/grpc/codes"
	"google.golang.org/grpc/status"
)

// memPool is an in-memory pool.FilePool. It counts open files so that a
// buffer that was never released (a frozen file that is never closed) shows
// up as a file that stays open after the build directory was removed.
type memPool struct {
	mu       sync.Mutex
	created  int
	open     int
	dblClose int
}

func (p *memPool) NewFile(holeSource pool.HoleSource, size uint64) (filesystem.FileReadWriter, error) {
	p.mu.Lock()
	p.created++
	p.open++
	p.mu.Unlock()
	return &memFile{p: p, data: make([]byte, size)}, nil
}

type memFile struct {
	p      *memPool
	data   []byte
	closed bool
}

func (f *memFile) check() error {
	if f.closed {
		return status.Error(codes.Internal, "memFile: use after close")
	}
	return nil
}

func (f *memFile) ReadAt(p []byte, off int64) (int, error) {
	if err := f.check(); err != nil {
		return 0, err
	}
	if off >= int64(len(f.data)) {
		return 0, io.EOF
	}
	n := copy(p, f.data[off:])
	if n < len(p) {
		return n, io.EOF
	}
	return n, nil
}

func (f *memFile) WriteAt(p []byte, off int64) (int, error) {
	if err := f.check(); err != nil {
		return 0, err
	}
	if end := int(off) + len(p); end > len(f.data) {
		f.data = append(f.data, make([]byte, end-len(f.data))...)
	}
	copy(f.data[off:], p)
	return len(p), nil
}

func (f *memFile) Truncate(size int64) error {
	if err := f.check(); err != nil {
		return err
	}
	if int(size) <= len(f.data) {
		f.data = f.data[:size]
	} else {
		f.data = append(f.data, make([]byte, int(size)-len(f.data))...)
	}
	return nil
}

func (f *memFile) Sync() error { return nil }

func (f *memFile) Len() (int64, error) { return int64(len(f.data)), nil }

func (f *memFile) GetNextRegionOffset(off int64, regionType filesystem.RegionType) (int64, error) {
	if off >= int64(len(f.data)) {
		return 0, io.EOF
	}
	switch regionType {
	case filesystem.Data:
		return off, nil
	default:
		return int64(len(f.data)), nil
	}
}

func (f *memFile) Close() error {
	f.p.mu.Lock()
	defer f.p.mu.Unlock()
	if f.closed {
		f.p.dblClose++
		return nil
	}
	f.closed = true
	f.p.open--
	return nil
}

// detRand is a deterministic random.SingleThreadedGenerator (splitmix64) for
// the NFS handle allocator; the values only become inode numbers.
type detRand struct{ s uint64 }

func (r *detRand) Uint64() uint64 {
	r.s += 0x9e3779b97f4a7c15
	z := r.s
	z = (z ^ (z >> 30)) * 0xbf58476d1ce4e5b9
	z = (z ^ (z >> 27)) * 0x94d049bb133111eb
	return z ^ (z >> 31)
}
func (r *detRand) Uint32() uint32       { return uint32(r.Uint64() >> 32) }
func (r *detRand) Float64() float64     { return float64(r.Uint64()>>11) / (1 << 53) }
func (r *detRand) Int64N(n int64) int64 { return int64(r.Uint64() % uint64(n)) }
func (r *detRand) IntN(n int) int       { return int(r.Uint64() % uint64(n)) }
func (r *detRand) Read(p []byte) (int, error) {
	for i := range p {
		p[i] = byte(r.Uint64())
	}
	return len(p), nil
}
func (r *detRand) Shuffle(n int, swap func(i, j int)) {
	for i := n - 1; i > 0; i-- {
		swap(i, r.IntN(i+1))
	}
}

// quietLogger swallows the errors the virtual file system would log.
type quietLogger struct {
	mu sync.Mutex
	n  int
}

func (l *quietLogger) Log(err error) {
	l.mu.Lock()
	l.n++
	l.mu.Unlock()
}

package w4

// C09 configuration "BuildClient": the real builder.BuildClient of one worker
// thread drives the real executor stack (Caching -> StorageFlushing ->
// Timestamped -> FilePoolStats -> LocalBuildExecutor on the virtual build
// directory). As in cmd/bb_worker, all actions of the thread go through the
// thread's one BatchedStoreBlobAccess and its flusher. A scripted scheduler
// hands out several actions and sometimes pre-empts the running one (desired
// state: another action, or idle); the runner stub is slow to notice the
// cancellation.

import (
	"context"
	"fmt"
	"net/url"
	"os"
	"sort"
	"strings"
	"sync"
	"sync/atomic"
	"time"

	remoteexecution "github.com/bazelbuild/remote-apis/build/bazel/remote/execution/v2"
	re_blobstore "github.com/buildbarn/bb-remote-execution/pkg/blobstore"
	"github.com/buildbarn/bb-remote-execution/pkg/builder"
	re_cas "github.com/buildbarn/bb-remote-execution/pkg/cas"
	"github.com/buildbarn/bb-remote-execution/pkg/cleaner"
	re_clock "github.com/buildbarn/bb-remote-execution/pkg/clock"
	"github.com/buildbarn/bb-remote-execution/pkg/filesystem/access"
	"github.com/buildbarn/bb-remote-execution/pkg/filesystem/pool"
	"github.com/buildbarn/bb-remote-execution/pkg/filesystem/virtual"
	"github.com/buildbarn/bb-remote-execution/pkg/proto/remoteworker"
	runner_pb "github.com/buildbarn/bb-remote-execution/pkg/proto/runner"
	"github.com/buildbarn/bb-remote-execution/pkg/verifsim/simenv"
	"github.com/buildbarn/bb-remote-execution/pkg/verifsim/simrun"
	"github.com/buildbarn/bb-remote-execution/pkg/verifsim/simsync"
	"github.com/buildbarn/bb-storage/pkg/blobstore"
	"github.com/buildbarn/bb-storage/pkg/blobstore/buffer"
	"github.com/buildbarn/bb-storage/pkg/digest"
	"github.com/buildbarn/bb-storage/pkg/filesystem/path"
	"golang.org/x/sync/semaphore"
	"google.golang.org/grpc"
	"google.golang.org/grpc/codes"
	"google.golang.org/grpc/status"
	"google.golang.org/protobuf/types/known/durationpb"
	"google.golang.org/protobuf/types/known/emptypb"
	"google.golang.org/protobuf/types/known/timestamppb"
)

type bcJob struct {
	idx        int
	doNotCache bool
	outputs    []string // declared output files
	hold       int      // park points of the command
	lag        int      // further park points after its context was cancelled
	result     int      // outcomeOK / outcomeExit / outcomeError
	action     *remoteexecution.Action
	digest     digest.Digest
	key        string

	handedOut  bool
	preempted  bool
	started    bool // the stack's Execute was entered
	returned   bool
	runnerRan  bool
	runnerOK   bool
	windDown   int
	tapped     *remoteexecution.ExecuteResponse
	acAttempts int
}

func (j *bcJob) String() string {
	return fmt.Sprintf("job%d(do_not_cache=%v outputs=%v hold=%d lag=%d %s)", j.idx, j.doNotCache, j.outputs, j.hold, j.lag, outcomeNames[j.result])
}

type bcWorld struct {
	r *simrun.Run
	k *simsync.Kernel
	t *simsync.Tape

	df    digest.Function
	store *store
	sim   *simenv.SimClock
	root  virtual.PrepopulatedDirectory
	jobs  []*bcJob
	byKey map[string]*bcJob

	client *builder.BuildClient
	actor  *simsync.Actor
	ctx    context.Context
	cancel context.CancelFunc

	next        int
	current     *bcJob // what the scheduler believes the thread executes
	scriptDone  bool
	stopping    bool
	syncs       int
	maxSyncs    int
	preemptions int
	maxPreempt  int
	inFlight    []*bcJob // jobs inside the stack's Execute

	mu       sync.Mutex
	acked    map[string]bool
	overlaps int
}

func (w *bcWorld) violate(rule, msg string) {
	var js []string
	for _, j := range w.jobs {
		st := "not handed out"
		switch {
		case j.returned:
			st = "returned"
			if j.tapped != nil {
				st += " " + describeResponse(j.tapped, nil)
			}
		case j.started:
			st = "in flight"
		case j.handedOut:
			st = "handed out"
		}
		if j.preempted {
			st = "pre-empted, " + st
		}
		js = append(js, fmt.Sprintf("%s: %s (runner ran=%v ok=%v, parks after cancellation=%d)", j, st, j.runnerRan, j.runnerOK, j.windDown))
	}
	var calls []string
	for _, c := range w.store.calls {
		calls = append(calls, c.String())
	}
	if len(calls) > 60 {
		calls = append([]string{"..."}, calls[len(calls)-60:]...)
	}
	w.k.Violate(rule, fmt.Sprintf("%s\njobs:\n  %s\nstorage calls:\n  %s", msg, strings.Join(js, "\n  "), strings.Join(calls, "\n  ")))
}

// --- the thread's CAS writer: acknowledged-write model ---------------------------

type bcWriter struct {
	blobstore.BlobAccess
	w *bcWorld
}

func (b *bcWriter) Put(ctx context.Context, d digest.Digest, buf buffer.Buffer) error {
	err := b.BlobAccess.Put(ctx, d, buf)
	if err == nil {
		b.w.mu.Lock()
		b.w.acked[blobKey(d)] = true
		b.w.mu.Unlock()
	}
	return err
}

func (w *bcWorld) flusher(base func(context.Context) error) func(context.Context) error {
	return func(ctx context.Context) error {
		err := base(ctx)
		w.mu.Lock()
		acked := make([]string, 0, len(w.acked))
		for key := range w.acked {
			acked = append(acked, key)
		}
		w.acked = map[string]bool{}
		w.mu.Unlock()
		sort.Strings(acked)
		if err != nil {
			w.k.Probe("bc-flush-reported-error")
			return err
		}
		w.k.Probe("bc-flush-ok")
		for _, key := range acked {
			if _, ok := w.store.cas[key]; !ok {
				w.violate("C09/acked-write-lost", fmt.Sprintf("the thread's batching layer acknowledged Put(%s) and the following flush returned nil, but the blob is not in the CAS", shortKey(key)))
			}
		}
		return nil
	}
}

// --- decorators of the harness ------------------------------------------------------

// bcGuard is what BuildClient calls: it notices two Execute calls of one
// thread that overlap. bcTap sits directly below the caching decorator.
type bcGuard struct {
	builder.BuildExecutor
	w *bcWorld
}

func (g *bcGuard) Execute(ctx context.Context, filePool pool.FilePool, monitor access.UnreadDirectoryMonitor, digestFunction digest.Function, request *remoteworker.DesiredState_Executing, executionStateUpdates chan<- *remoteworker.CurrentState_Executing) *remoteexecution.ExecuteResponse {
	w := g.w
	job := w.byKey[request.ActionDigest.GetHash()]
	if job == nil {
		panic(simsync.HarnessError{Msg: "Execute called for an unknown action"})
	}
	w.k.Yield("execute-enter")
	job.started = true
	if len(w.inFlight) > 0 && os.Getenv("W4_NO_OVERLAP_RULE") != "" {
		// Debugging aid: look for the consequences of an overlap instead
		// of reporting the overlap itself.
		w.overlaps++
	} else if len(w.inFlight) > 0 {
		w.overlaps++
		w.violate("C09/executions-overlap", fmt.Sprintf("Execute of %s is called on the worker thread while Execute of %s has not returned: both use the thread's batching CAS writer and flusher", job, w.inFlight[0]))
	}
	w.inFlight = append(w.inFlight, job)
	resp := g.BuildExecutor.Execute(ctx, filePool, monitor, digestFunction, request, executionStateUpdates)
	w.k.Yield("execute-leave")
	for i, j := range w.inFlight {
		if j == job {
			w.inFlight = append(w.inFlight[:i], w.inFlight[i+1:]...)
			break
		}
	}
	job.returned = true
	return resp
}

type bcTap struct {
	builder.BuildExecutor
	w *bcWorld
}

func (t *bcTap) Execute(ctx context.Context, filePool pool.FilePool, monitor access.UnreadDirectoryMonitor, digestFunction digest.Function, request *remoteworker.DesiredState_Executing, executionStateUpdates chan<- *remoteworker.CurrentState_Executing) *remoteexecution.ExecuteResponse {
	resp := t.BuildExecutor.Execute(ctx, filePool, monitor, digestFunction, request, executionStateUpdates)
	if job := t.w.byKey[request.ActionDigest.GetHash()]; job != nil {
		job.tapped = resp
	}
	return resp
}

// --- runner stub -------------------------------------------------------------------

type bcRunner struct{ w *bcWorld }

func (r *bcRunner) CheckReadiness(ctx context.Context, in *runner_pb.CheckReadinessRequest, opts ...grpc.CallOption) (*emptypb.Empty, error) {
	return &emptypb.Empty{}, nil
}

func (r *bcRunner) Run(ctx context.Context, in *runner_pb.RunRequest, opts ...grpc.CallOption) (*runner_pb.RunResponse, error) {
	w := r.w
	k := w.k
	var job *bcJob
	for _, a := range in.Arguments {
		var n int
		if _, err := fmt.Sscanf(a, "--job=%d", &n); err == nil && n < len(w.jobs) {
			job = w.jobs[n]
		}
	}
	if job == nil {
		panic(simsync.HarnessError{Msg: "runner called for an unknown job"})
	}
	job.runnerRan = true
	k.Probe("bc-runner-ran")
	bg := context.Background()
	ioFailed := false
	put := func(p string, data string) {
		if err := writeFile(bg, w.root, p, []byte(data), false); err != nil {
			ioFailed = true
		}
	}
	put(in.StdoutPath, fmt.Sprintf("stdout of job %d\n", job.idx))
	put(in.StderrPath, "")
	for i, o := range job.outputs {
		put(in.InputRootDirectory+"/"+o, fmt.Sprintf("output %d of job %d\n", i, job.idx))
	}
	cancelled := false
	lagLeft := job.lag
	for i := 0; i < job.hold || (cancelled && lagLeft > 0); i++ {
		k.Seam("runner-hold")
		if !cancelled && ctx.Err() != nil {
			cancelled = true
			k.Probe("bc-runner-noticed-cancellation")
			continue
		}
		if cancelled {
			// The command is slow to die.
			lagLeft--
			job.windDown++
			k.Probe("bc-command-winding-down-after-cancellation")
		}
	}
	if ctx.Err() != nil {
		return nil, status.FromContextError(ctx.Err()).Err()
	}
	switch {
	case ioFailed:
		return &runner_pb.RunResponse{ExitCode: 74}, nil
	case job.result == outcomeError:
		return nil, status.Error(codes.Internal, "runner: command crashed")
	case job.result == outcomeExit:
		return &runner_pb.RunResponse{ExitCode: 2}, nil
	}
	job.runnerOK = true
	return &runner_pb.RunResponse{}, nil
}

// --- scripted scheduler ---------------------------------------------------------------

type bcScheduler struct{ w *bcWorld }

func (s *bcScheduler) execute(job *bcJob) *remoteworker.DesiredState {
	w := s.w
	job.handedOut = true
	w.current = job
	w.k.Probe("bc-action-handed-out")
	return &remoteworker.DesiredState{WorkerState: &remoteworker.DesiredState_Executing_{Executing: &remoteworker.DesiredState_Executing{
		ActionDigest:    job.digest.GetProto(),
		Action:          job.action,
		QueuedTimestamp: timestamppb.New(startTime),
		DigestFunction:  remoteexecution.DigestFunction_SHA256,
	}}}
}

func (s *bcScheduler) Synchronize(ctx context.Context, req *remoteworker.SynchronizeRequest, opts ...grpc.CallOption) (*remoteworker.SynchronizeResponse, error) {
	w := s.w
	k := w.k
	t := w.t
	k.Seam("synchronize")
	if err := ctx.Err(); err != nil {
		return nil, status.FromContextError(err).Err()
	}
	w.syncs++
	resp := &remoteworker.SynchronizeResponse{NextSynchronizationAt: timestamppb.New(w.sim.Now().Add(time.Second))}
	executing := false
	if st, ok := req.CurrentState.WorkerState.(*remoteworker.CurrentState_Executing_); ok {
		if _, completed := st.Executing.ExecutionState.(*remoteworker.CurrentState_Executing_Completed); !completed {
			executing = true
		} else {
			k.Probe("bc-completion-reported")
		}
	}
	idle := &remoteworker.DesiredState{WorkerState: &remoteworker.DesiredState_Idle{Idle: &emptypb.Empty{}}}
	if !executing {
		// Idle, or the previous action completed: next action, or finish.
		if w.next < len(w.jobs) && !w.stopping {
			resp.DesiredState = s.execute(w.jobs[w.next])
			w.next++
		} else {
			resp.DesiredState = idle
			w.current = nil
			w.scriptDone = true
		}
		return resp, nil
	}
	// The thread reports that it is executing. Leave it alone, or pre-empt.
	choice := 0
	if !w.stopping && w.preemptions < w.maxPreempt && w.syncs < w.maxSyncs {
		weights := []int{12, 3, 1}
		if w.next >= len(w.jobs) {
			weights[1] = 0
		}
		choice = t.Weighted(weights)
	}
	switch choice {
	case 1, 2:
		w.preemptions++
		if w.current != nil {
			w.current.preempted = true
		}
		k.FaultsFired["action-pre-empted"]++
		if len(w.inFlight) > 0 {
			k.Probe("bc-pre-emption-while-execute-in-flight")
		}
		if choice == 1 {
			resp.DesiredState = s.execute(w.jobs[w.next])
			w.next++
		} else {
			resp.DesiredState = idle
			w.current = nil
		}
	}
	return resp, nil
}

// --- construction ------------------------------------------------------------------------

func newBCWorld(r *simrun.Run) *bcWorld {
	w := &bcWorld{r: r, k: r.K, t: r.T, byKey: map[string]*bcJob{}, acked: map[string]bool{}}
	t := w.t
	k := w.k
	w.df = digest.MustNewFunction("main", remoteexecution.DigestFunction_SHA256)
	w.store = newStore(k, w.df)
	w.store.allowDuplicates = true
	w.sim = simenv.NewSimClock(k, startTime)
	if t.Bool(1, 2) {
		w.store.randomRate = 1
		w.store.randomKinds = []int{fErrBefore, fErrAfter}
	}
	w.store.onACWrite = w.checkACWrite
	w.maxSyncs = 40
	w.maxPreempt = 1 + t.Choice(3)

	// Jobs.
	nj := 2 + t.Choice(3)
	for i := 0; i < nj; i++ {
		job := &bcJob{idx: i, doNotCache: t.Bool(1, 5), hold: t.Choice(7), lag: t.Choice(6), result: t.Weighted([]int{7, 1, 1})}
		job.outputs = pick(t, [][]string{{"out.txt"}, {"out.txt", "d/more.txt"}, {}, {"a.bin", "b.bin", "c.bin"}})
		command := &remoteexecution.Command{Arguments: []string{"/bin/tool", fmt.Sprintf("--job=%d", i)}, OutputPaths: job.outputs}
		commandDigest := w.store.preload(w.df, mustMarshal(command))
		inputRootDigest := w.store.preload(w.df, mustMarshal(&remoteexecution.Directory{}))
		job.action = &remoteexecution.Action{
			CommandDigest:   commandDigest.GetProto(),
			InputRootDigest: inputRootDigest.GetProto(),
			DoNotCache:      job.doNotCache,
			Timeout:         durationpb.New(time.Hour),
		}
		job.digest = computeDigest(w.df, mustMarshal(job.action))
		job.key = blobKey(job.digest)
		w.jobs = append(w.jobs, job)
		w.byKey[job.digest.GetHashString()] = job
		r.Logf("%s", job)
	}

	// The worker thread, as cmd/bb_worker/main.go wires it.
	batch := 1 + t.Choice(4)
	globalCAS := &fakeCAS{s: w.store}
	baseWriter, flusher := re_blobstore.NewBatchedStoreBlobAccess(globalCAS, digest.KeyWithoutInstance, batch, semaphore.NewWeighted(int64(batch)))
	var writer blobstore.BlobAccess = &bcWriter{BlobAccess: baseWriter, w: w}
	suspendableClock := re_clock.NewSuspendableClock(w.sim, time.Hour, time.Second/10)
	handleAllocator := virtual.NewNFSHandleAllocator(&detRand{s: 9})
	logger := &quietLogger{}
	rootAttributesSetter := func(requested virtual.AttributesMask, attributes *virtual.Attributes) {}
	w.root = virtual.NewInMemoryPrepopulatedDirectory(
		virtual.NewHandleAllocatingFileAllocator(
			virtual.NewPoolBackedFileAllocator(pool.EmptyFilePool, logger, rootAttributesSetter, virtual.NoNamedAttributesFactory),
			handleAllocator,
		),
		virtual.NewErrorSymlinkFactory(status.Error(codes.PermissionDenied, "Symlink outside build directory")),
		logger,
		handleAllocator,
		sort.Sort,
		func(string) bool { return false },
		w.sim,
		virtual.CaseSensitiveComponentNormalizer,
		rootAttributesSetter,
		virtual.NoNamedAttributesFactory,
	)
	characterDeviceFactory := virtual.NewHandleAllocatingCharacterDeviceFactory(virtual.BaseCharacterDeviceFactory, handleAllocator.New())
	defaultAttributesSetter := func(requested virtual.AttributesMask, attributes *virtual.Attributes) {
		attributes.SetOwnerUserID(1000)
		attributes.SetOwnerGroupID(1000)
	}
	symlinkFactory := virtual.NewHandleAllocatingSymlinkFactory(virtual.NewBaseSymlinkFactory(defaultAttributesSetter), handleAllocator.New(), path.LocalFormat)
	buildDirectory := builder.NewVirtualBuildDirectory(
		w.root,
		re_cas.NewSuspendingDirectoryFetcher(re_cas.NewBlobAccessDirectoryFetcher(globalCAS, 1<<16, 1<<16), suspendableClock),
		re_blobstore.NewSuspendingBlobAccess(writer, suspendableClock),
		symlinkFactory,
		characterDeviceFactory,
		handleAllocator,
		defaultAttributesSetter,
		w.sim,
	)
	idleInvoker := cleaner.NewIdleInvoker(func(ctx context.Context) error { return w.root.RemoveAllChildren(false) })
	var nextParallelActionID atomic.Uint64
	creator := builder.NewSharedBuildDirectoryCreator(
		builder.NewCleanBuildDirectoryCreator(builder.NewRootBuildDirectoryCreator(buildDirectory), idleInvoker),
		&nextParallelActionID,
	)
	var be builder.BuildExecutor = builder.NewLocalBuildExecutor(writer, creator, &bcRunner{w: w}, suspendableClock, time.Minute, nil, 1<<16, map[string]string{"PATH": "/bin"}, false)
	be = builder.NewFilePoolStatsBuildExecutor(
		builder.NewTimestampedBuildExecutor(
			builder.NewStorageFlushingBuildExecutor(be, w.flusher(flusher)),
			w.sim,
			"{\"thread\":\"0\"}",
		),
	)
	be = &bcTap{BuildExecutor: be, w: w}
	be = builder.NewCachingBuildExecutor(be, &fakeCAS{s: w.store, historical: true}, &fakeAC{s: w.store}, &url.URL{Scheme: "http", Host: "browser.example"})
	be = &bcGuard{BuildExecutor: be, w: w}
	w.client = builder.NewBuildClient(&bcScheduler{w: w}, be, &memPool{}, w.sim, map[string]string{"thread": "0"}, mustInstanceName("main"), &remoteexecution.Platform{}, 0)
	w.ctx, w.cancel = context.WithCancel(context.Background())
	k.Note(fmt.Sprintf("C09 BuildClient configuration: jobs=%d batch=%d max-pre-emptions=%d storage-faults=%v", nj, batch, w.maxPreempt, w.store.randomRate > 0))
	for _, j := range w.jobs {
		k.Note(j.String())
	}
	return w
}

// --- oracle --------------------------------------------------------------------------------

func (w *bcWorld) checkACWrite(r *request, res *remoteexecution.ActionResult) {
	k := w.k
	k.Probe("bc-ac-put-attempted")
	job := w.byKey[r.d.GetHashString()]
	if job == nil {
		w.violate("C09/ac-write-wrong-key", fmt.Sprintf("the Action Cache entry is written under %s, which is not the digest of any action of this worker", r.d))
		return
	}
	job.acAttempts++
	if job.doNotCache {
		w.violate("C09/ac-write-do-not-cache", fmt.Sprintf("an ActionResult is written to the Action Cache for %s, an action with do_not_cache", job))
	}
	if t := job.tapped; t == nil {
		w.violate("C09/ac-write-unsuccessful", fmt.Sprintf("an ActionResult of %s is written to the Action Cache before the executors below the caching decorator returned", job))
	} else if status.ErrorProto(t.Status) != nil || t.Result == nil || t.Result.ExitCode != 0 || res.ExitCode != 0 {
		w.violate("C09/ac-write-unsuccessful", fmt.Sprintf("an ActionResult of %s is written to the Action Cache although its response is %s", job, describeResponse(t, nil)))
	}
	if !job.runnerOK {
		w.violate("C09/ac-write-unsuccessful", fmt.Sprintf("an ActionResult of %s is written to the Action Cache although its command did not complete successfully", job))
	}
	if _, missing := referencedBlobs(w.store, res); len(missing) > 0 {
		w.violate("C09/ac-write-missing-blob", fmt.Sprintf("at the instant of the Action Cache write for %s the CAS lacks blobs the ActionResult references: %v", job, missing))
	}
	if job.preempted {
		k.Probe("bc-pre-empted-action-still-cached")
	}
}

func (w *bcWorld) events() []simsync.Event {
	evs := w.store.events()
	if w.actor == nil || w.actor.Done() || !w.actor.Blocked() {
		return evs
	}
	// The thread waits (for its next synchronization, or for a cancelled
	// action to return): the next synchronization instant may arrive.
	for _, e := range w.sim.ClockEvents(2, 1, nil, nil) {
		if strings.HasPrefix(e.Key, "advance-to-next ") {
			d, err := time.ParseDuration(strings.TrimPrefix(e.Key, "advance-to-next "))
			if err != nil || d > time.Second {
				continue
			}
		}
		if strings.HasPrefix(e.Key, "ctx-deadline ") {
			continue
		}
		evs = append(evs, e)
	}
	return evs
}

func (w *bcWorld) loop() {
	for i := 0; i < 400; i++ {
		w.k.Yield("thread-loop")
		mayTerminate, err := w.client.Run(w.ctx)
		if err != nil {
			w.k.Probe("bc-run-returned-error")
		}
		if w.scriptDone && mayTerminate {
			return
		}
	}
}

func (w *bcWorld) run() {
	k := w.k
	k.AddSource(w.events)
	w.actor = k.Spawn("thread0", w.loop)
	k.Run(1500 + 500*w.t.Choice(4))
	if k.Failed() {
		return
	}
	k.Note("drain")
	k.FaultsOn = false
	w.stopping = true
	w.store.randomRate = 0
	quiet := false
	for i := 0; i < 80 && !quiet; i++ {
		quiet = k.Run(1000)
		if k.Failed() {
			return
		}
	}
	if !quiet {
		panic(simsync.HarnessError{Msg: "C09 BuildClient configuration did not come to rest within 80000 steps"})
	}
	w.cancel()
	if !k.Run(2000) && !k.Failed() {
		panic(simsync.HarnessError{Msg: "C09 BuildClient configuration: final drain did not come to rest"})
	}
	if k.Failed() {
		return
	}
	lockWaiters, blocked, seam := k.Stuck()
	if !w.actor.Done() || len(lockWaiters)+len(blocked)+len(seam) > 0 {
		w.violate("C09/execute-never-returned", fmt.Sprintf("nothing is enabled any more but the worker thread has not finished: lock-waiters=%v blocked=%v parked=%v held=%v", lockWaiters, blocked, seam, k.HeldLocks()))
		return
	}
	// Whatever is in the Action Cache now references only stored blobs.
	keys := make([]string, 0, len(w.store.ac))
	for key := range w.store.ac {
		keys = append(keys, key)
	}
	sort.Strings(keys)
	for _, key := range keys {
		if _, missing := referencedBlobs(w.store, w.store.ac[key]); len(missing) > 0 {
			w.violate("C09/cached-result-missing-blob", fmt.Sprintf("the Action Cache entry %s references blobs that are not in the CAS: %v", shortKey(key), missing))
		}
	}
	executed, cached, windDown := 0, 0, 0
	for _, j := range w.jobs {
		if j.started {
			executed++
		}
		if j.acAttempts > 0 {
			cached++
		}
		if j.preempted && j.windDown > 0 {
			windDown++
		}
	}
	w.r.Count("bc_runs", 1)
	w.r.Count("bc_actions_executed", executed)
	w.r.Count("bc_actions_cached", cached)
	w.r.Count("bc_pre_emptions", w.preemptions)
	w.r.Count("bc_pre_empted_actions_slow_to_wind_down", windDown)
	w.r.State(fmt.Sprintf("bc jobs=%d executed=%d pre-emptions=%d slow=%d", len(w.jobs), executed, w.preemptions, windDown))
	// Non-triviality: at least two actions went through the thread's writer
	// and at least one running action was pre-empted.
	w.r.NonTrivial = executed >= 2 && w.preemptions >= 1
}

func runBuildClient(r *simrun.Run) {
	w := newBCWorld(r)
	w.run()
}

func mustInstanceName(s string) digest.InstanceName {
	in, err := digest.NewInstanceName(s)
	if err != nil {
		panic(simsync.HarnessError{Msg: err.Error()})
	}
	return in
}

// Package w4 is the executor-stack world for property C09: the real
// LocalBuildExecutor on a real virtual build directory, decorated as in
// cmd/bb_worker (storage flushing, timestamps, file pool stats, metrics,
// caching) over the real BatchedStoreBlobAccess, runs against a fake CAS and
// AC on which every call is a decision of the simulator. For each generated
// workload a fault-free execution records the k storage calls, then one
// execution is made for every call position and fault kind, then a few
// executions with random multiple faults.
package w4

import (
	"fmt"
	"os"
	"strings"
	"time"

	remoteexecution "github.com/bazelbuild/remote-apis/build/bazel/remote/execution/v2"
	"github.com/buildbarn/bb-remote-execution/pkg/verifsim/simrun"
	"github.com/buildbarn/bb-remote-execution/pkg/verifsim/simsync"
)

var debugRun int

var startTime = time.Unix(1700000000, 0).UTC()

func pick[T any](t *simsync.Tape, xs []T) T { return xs[t.Choice(len(xs))] }

// Contents the runner stub writes. Index 0 is the empty file.
var contents = [][]byte{
	[]byte(""),
	[]byte("alpha\n"),
	[]byte("beta beta\n"),
	[]byte(strings.Repeat("0123456789abcdef", 12) + "\n"),
	[]byte("gamma"),
}

const (
	nodeAbsent = iota
	nodeFile
	nodeDir
	nodeSymlink
	nodeKeep // leave what the input root put there
)

var nodeNames = []string{"absent", "file", "dir", "symlink", "keep"}

const (
	outcomeOK = iota
	outcomeExit
	outcomeError
	outcomeTimeout
)

var outcomeNames = []string{"ok", "exit-nonzero", "runner-error", "timeout"}

// treeEntry is one entry the runner creates inside an output directory.
type treeEntry struct {
	path    string // relative, '/' separated
	content int    // >= 0: file; -1: symlink; -2: empty directory
	target  string
	exec    bool
}

var trees = [][]treeEntry{
	{},
	{{path: "x", content: 1}},
	{{path: "x", content: 1}, {path: "y", content: 2, exec: true}, {path: "s/z", content: 1}},
	{{path: "s/z", content: 1}, {path: "s2/z", content: 1}, {path: "x", content: 0}},
	{{path: "x", content: 3}, {path: "l", content: -1, target: "x"}, {path: "s/t/u", content: 2}, {path: "e", content: -2}},
}

// candidate is a declarable output path.
type candidate struct {
	declared string // as written in Command.output_paths, relative to the working directory
	target   string // location relative to the working directory, normalised ("" = the working directory itself)
	flavour  int    // 0 file-ish, 1 dir-ish, 2 symlink-ish, 3 never created, 4 input file, 5 working directory
}

var candidates = []candidate{
	{"a.txt", "a.txt", 0},
	{"b.txt", "b.txt", 0},
	{"d/c.txt", "d/c.txt", 0},
	{"d/e/f.txt", "d/e/f.txt", 0},
	{"odir", "odir", 1},
	{"d/odir2", "d/odir2", 1},
	{"lnk", "lnk", 2},
	{"gone.txt", "gone.txt", 3},
	{"./a.txt", "a.txt", 0},
	{"d/../b.txt", "b.txt", 0},
	{"in.txt", "in.txt", 4},
	{".", "", 5},
}

type createOp struct {
	target  string // relative to the input root
	kind    int
	content int
	exec    bool
	tree    int
	link    string
}

func (c createOp) String() string {
	switch c.kind {
	case nodeFile:
		return fmt.Sprintf("%s=file(c%d,x=%v)", c.target, c.content, c.exec)
	case nodeDir:
		return fmt.Sprintf("%s=dir(t%d)", c.target, c.tree)
	case nodeSymlink:
		return fmt.Sprintf("%s=symlink(%s)", c.target, c.link)
	}
	return fmt.Sprintf("%s=%s", c.target, nodeNames[c.kind])
}

type logSpec struct {
	path    string
	content int
}

// workload is everything that is fixed across the executions of one run.
type workload struct {
	instance    string
	doNotCache  bool
	outcome     int
	exitCode    int32
	errorEarly  bool
	workingDir  string
	outputPaths []string
	creates     []createOp
	stdout      int
	stderr      int
	serverLogs  []logSpec
	batchSize   int
	semaphore   int
	dirFormat   remoteexecution.Command_OutputDirectoryFormat
	forceTrees  bool
	preexisting []bool
	inputFile   int
	multi       int
	multiRate   int
}

func (wl *workload) String() string {
	var cs []string
	for _, c := range wl.creates {
		cs = append(cs, c.String())
	}
	var pre []string
	for i, p := range wl.preexisting {
		if p {
			pre = append(pre, fmt.Sprintf("c%d", i))
		}
	}
	return fmt.Sprintf("instance=%q do_not_cache=%v outcome=%s exit=%d early=%v wd=%q outputs=%q creates=[%s] stdout=c%d stderr=c%d logs=%v batch=%d sem=%d format=%s force_trees=%v preexisting=%v input=c%d",
		wl.instance, wl.doNotCache, outcomeNames[wl.outcome], wl.exitCode, wl.errorEarly, wl.workingDir, wl.outputPaths, strings.Join(cs, " "), wl.stdout, wl.stderr, wl.serverLogs,
		wl.batchSize, wl.semaphore, wl.dirFormat, wl.forceTrees, pre, wl.inputFile)
}

func joinPath(a, b string) string {
	switch {
	case a == "":
		return b
	case b == "":
		return a
	}
	return a + "/" + b
}

func genWorkload(t *simsync.Tape, tier string, naive bool) *workload {
	wl := &workload{}
	wl.instance = pick(t, []string{"", "main", "a/b"})
	wl.doNotCache = t.Bool(1, 4)
	wl.outcome = t.Weighted([]int{6, 2, 1, 1})
	switch wl.outcome {
	case outcomeExit:
		wl.exitCode = int32(1 + t.Choice(3))
	case outcomeError:
		wl.errorEarly = t.Bool(1, 3)
	}
	wl.workingDir = pick(t, []string{"", "", "wd"})
	wl.batchSize = 1 + t.Choice(4)
	wl.semaphore = 1 + t.Choice(3)
	wl.dirFormat = pick(t, []remoteexecution.Command_OutputDirectoryFormat{remoteexecution.Command_TREE_ONLY, remoteexecution.Command_TREE_AND_DIRECTORY, remoteexecution.Command_DIRECTORY_ONLY})
	wl.forceTrees = t.Bool(1, 5)
	wl.inputFile = -1
	if !naive && t.Bool(1, 3) {
		wl.inputFile = 1 + t.Choice(len(contents)-1)
	}
	// Declared outputs: 0-6, duplicates allowed.
	maxOut := 7
	n := t.Choice(maxOut)
	seenTarget := map[string]bool{}
	for i := 0; i < n; i++ {
		c := candidates[t.Weighted([]int{4, 4, 3, 2, 3, 2, 2, 1, 1, 1, 1, 1})]
		if c.flavour == 4 && wl.inputFile < 0 {
			c = candidates[0]
		}
		wl.outputPaths = append(wl.outputPaths, c.declared)
		if seenTarget[c.target] {
			continue
		}
		seenTarget[c.target] = true
		op := createOp{target: joinPath(wl.workingDir, c.target)}
		switch c.flavour {
		case 0:
			op.kind = []int{nodeFile, nodeAbsent, nodeDir, nodeSymlink}[t.Weighted([]int{8, 1, 1, 1})]
		case 1:
			op.kind = []int{nodeDir, nodeAbsent, nodeFile}[t.Weighted([]int{8, 1, 1})]
		case 2:
			op.kind = []int{nodeSymlink, nodeAbsent}[t.Weighted([]int{6, 1})]
		case 3:
			op.kind = nodeAbsent
		case 4, 5:
			op.kind = nodeKeep
		}
		switch op.kind {
		case nodeFile:
			op.content = t.Choice(len(contents))
			op.exec = t.Bool(1, 4)
		case nodeDir:
			op.tree = t.Choice(len(trees))
		case nodeSymlink:
			op.link = pick(t, []string{"a.txt", "../up", "/abs/olute", "d/c.txt"})
		}
		if op.kind != nodeAbsent && op.kind != nodeKeep {
			wl.creates = append(wl.creates, op)
		}
	}
	wl.stdout = t.Weighted([]int{3, 1, 1, 0, 1}) // index into contents; 0 = empty
	wl.stderr = t.Weighted([]int{4, 0, 1, 0, 1})
	switch t.Weighted([]int{5, 2, 1}) {
	case 1:
		wl.serverLogs = []logSpec{{"log1", 4}}
	case 2:
		wl.serverLogs = []logSpec{{"log1", 2}, {"sub/log2", 4}}
	}
	wl.preexisting = make([]bool, len(contents))
	for i := range wl.preexisting {
		wl.preexisting[i] = t.Bool(1, 5)
	}
	wl.multi = 2 + t.Choice(3)
	wl.multiRate = 1 + t.Choice(3)
	if tier == "thorough" {
		wl.multi *= 3
	}
	return wl
}

const (
	planNone = iota
	planSingle
	planRandom
	planLate // native build directory: fault-free storage, late writes to outputs
)

type plan struct {
	mode int
	pos  int
	kind int
	rate int
}

func (p plan) String() string {
	switch p.mode {
	case planSingle:
		return fmt.Sprintf("single-fault call#%d %s", p.pos, faultNames[p.kind])
	case planLate:
		return "late-writes-by-a-process-left-behind"
	case planRandom:
		return fmt.Sprintf("random-faults rate=%d/10", p.rate)
	}
	return "fault-free"
}

type world struct {
	r   *simrun.Run
	k   *simsync.Kernel
	t   *simsync.Tape
	wl  *workload
	cur *execution
	n   int
	// naive: executions run on a native build directory.
	naive bool
}

func (w *world) run() {
	k := w.k
	// Configuration of this run: the fault enumeration on the virtual
	// build directory, late writes on a native build directory, or a
	// BuildClient thread that chains and pre-empts actions.
	switch w.t.Weighted([]int{2, 1, 1}) {
	case 1:
		w.runNaive()
		return
	case 2:
		runBuildClient(w.r)
		return
	}
	w.wl = genWorkload(w.t, w.r.Tier, false)
	w.r.Logf("workload: %s", w.wl)
	k.Note("workload: " + w.wl.String())
	k.AddSource(func() []simsync.Event {
		if w.cur == nil {
			return nil
		}
		return w.cur.events()
	})

	// 1. Fault-free execution: records the storage calls.
	base := w.execute(plan{mode: planNone})
	if k.Failed() {
		return
	}
	calls := base.store.calls
	w.r.Count("workloads", 1)
	w.r.Count("storage_calls_fault_free", len(calls))
	puts := 0
	for _, c := range calls {
		if c.store == "cas" && c.op == "put" {
			puts++
		}
	}
	// 2. Every position, every applicable fault kind.
	positions := 0
	for p, c := range calls {
		for kind := fErrBefore; kind < nFaultKinds; kind++ {
			if (kind == fErrAfter || kind == fCancelAfter) && c.op != "put" {
				continue
			}
			x := w.execute(plan{mode: planSingle, pos: p, kind: kind})
			if k.Failed() {
				return
			}
			if x.faultsFired == 1 {
				positions++
			} else {
				k.Probe("single-fault-position-not-reached")
			}
		}
	}
	w.r.Count("single_fault_executions", positions)
	// 3. Random multi-fault executions.
	for i := 0; i < w.wl.multi; i++ {
		w.execute(plan{mode: planRandom, rate: w.wl.multiRate})
		if k.Failed() {
			return
		}
		w.r.Count("multi_fault_executions", 1)
	}
	w.r.State(fmt.Sprintf("outcome=%s dnc=%v k=%d puts=%d batch=%d", outcomeNames[w.wl.outcome], w.wl.doNotCache, len(calls), puts, w.wl.batchSize))
	// Non-triviality: the enumeration was completed over at least three
	// storage calls of which at least one stored a blob through the batching
	// layer.
	w.r.NonTrivial = len(calls) >= 3 && puts >= 1
}

// runNaive: the executor stack on a native build directory. After a plain
// execution, several executions in which a process the action left behind
// overwrites (in place) or appends to output files while they are uploaded.
func (w *world) runNaive() {
	k := w.k
	w.naive = true
	w.wl = genWorkload(w.t, w.r.Tier, true)
	w.wl.batchSize = pick(w.t, []int{1, 2, 3, 100})
	if w.wl.outcome == outcomeTimeout {
		w.wl.outcome = outcomeOK
	}
	w.r.Logf("native build directory; workload: %s", w.wl)
	k.Note("native workload: " + w.wl.String())
	k.AddSource(func() []simsync.Event {
		if w.cur == nil {
			return nil
		}
		return w.cur.events()
	})
	w.execute(plan{mode: planNone})
	if k.Failed() {
		return
	}
	n := 3 + w.t.Choice(4)
	late, window := 0, 0
	for i := 0; i < n; i++ {
		x := w.execute(plan{mode: planLate})
		if k.Failed() {
			return
		}
		late += x.lateWrites
		window += x.lateInWindow
	}
	w.r.Count("native_executions", n+1)
	w.r.Count("native_late_writes", late)
	w.r.Count("native_in_place_overwrites_between_enqueue_and_flush", window)
	w.r.State(fmt.Sprintf("native outcome=%s batch=%d late=%d", outcomeNames[w.wl.outcome], w.wl.batchSize, late))
	// Non-triviality: at least one output was overwritten in place while
	// a write sat in the batching layer.
	w.r.NonTrivial = window >= 1
}

func (w *world) execute(p plan) *execution {
	x := newExecution(w, w.n, p)
	w.n++
	w.cur = x
	x.run()
	w.cur = nil
	w.r.Count("executions", 1)
	return x
}

// World is the entry point registered for C09.
func World(prop string) simrun.World {
	return func(r *simrun.Run) {
		w := &world{r: r, k: r.K, t: r.T}
		if dir := os.Getenv("W4_TRACE_DIR"); dir != "" {
			// Debugging aid for divergence hunts: dump every run's trace.
			r.K.TraceOn = true
			defer func() {
				debugRun++
				os.WriteFile(fmt.Sprintf("%s/trace.%d.%04d", dir, os.Getpid(), debugRun), []byte(strings.Join(r.K.Trace, "\n")+"\n"), 0o644)
			}()
		}
		w.run()
	}
}

package w4

import (
	"io"
	"os"
	"sort"
	"strings"
	"sync"
	"syscall"
	"time"

	"github.com/buildbarn/bb-storage/pkg/filesystem"
	"github.com/buildbarn/bb-storage/pkg/filesystem/path"
	"google.golang.org/grpc/codes"
	"google.golang.org/grpc/status"
)

// memFS is a small in-memory file hierarchy behind filesystem.Directory, used
// as the native build directory of builder.NewNaiveBuildDirectory. Files are
// read "live": a reader opened earlier sees bytes that are overwritten later,
// exactly like a file descriptor on a local file system.
type mnode struct {
	dir      bool
	symlink  bool
	data     []byte
	exec     bool
	target   string
	children map[string]*mnode
}

type memFS struct {
	mu   sync.Mutex
	root *mnode
}

func newMemFS() *memFS { return &memFS{root: &mnode{dir: true, children: map[string]*mnode{}}} }

// lookup returns the node at p ('/' separated, relative to the root).
func (fs *memFS) lookupLocked(p string, create bool) *mnode {
	n := fs.root
	for _, c := range splitPath(p) {
		if !n.dir {
			return nil
		}
		child := n.children[c]
		if child == nil {
			if !create {
				return nil
			}
			child = &mnode{dir: true, children: map[string]*mnode{}}
			n.children[c] = child
		}
		n = child
	}
	return n
}

func parentAndName(p string) (string, string) {
	cs := splitPath(p)
	return strings.Join(cs[:len(cs)-1], "/"), cs[len(cs)-1]
}

// Direct operations used by the runner stub and by the "process left behind".

func (fs *memFS) writeFile(p string, data []byte, exec bool) error {
	fs.mu.Lock()
	defer fs.mu.Unlock()
	dirPath, name := parentAndName(p)
	d := fs.lookupLocked(dirPath, true)
	if d == nil || !d.dir {
		return syscall.ENOTDIR
	}
	if old := d.children[name]; old != nil && (old.dir || old.symlink) {
		return syscall.EEXIST
	}
	d.children[name] = &mnode{data: append([]byte(nil), data...), exec: exec}
	return nil
}

func (fs *memFS) mkdirAll(p string) error {
	fs.mu.Lock()
	defer fs.mu.Unlock()
	if n := fs.lookupLocked(p, true); n == nil || !n.dir {
		return syscall.ENOTDIR
	}
	return nil
}

func (fs *memFS) symlink(p, target string) error {
	fs.mu.Lock()
	defer fs.mu.Unlock()
	dirPath, name := parentAndName(p)
	d := fs.lookupLocked(dirPath, true)
	if d == nil || !d.dir {
		return syscall.ENOTDIR
	}
	if d.children[name] != nil {
		return syscall.EEXIST
	}
	d.children[name] = &mnode{symlink: true, target: target}
	return nil
}

// overwrite flips one byte of the file in place; it reports whether the file
// (still) exists and is not empty.
func (fs *memFS) overwrite(p string, off int) bool {
	fs.mu.Lock()
	defer fs.mu.Unlock()
	n := fs.lookupLocked(p, false)
	if n == nil || n.dir || n.symlink || len(n.data) == 0 {
		return false
	}
	n.data[off%len(n.data)] ^= 0x5a
	return true
}

func (fs *memFS) read(p string) ([]byte, bool) {
	fs.mu.Lock()
	defer fs.mu.Unlock()
	n := fs.lookupLocked(p, false)
	if n == nil || n.dir || n.symlink {
		return nil, false
	}
	return append([]byte(nil), n.data...), true
}

func (fs *memFS) appendTo(p string, data []byte) bool {
	fs.mu.Lock()
	defer fs.mu.Unlock()
	n := fs.lookupLocked(p, false)
	if n == nil || n.dir || n.symlink {
		return false
	}
	n.data = append(n.data, data...)
	return true
}

func (fs *memFS) list() []string {
	fs.mu.Lock()
	defer fs.mu.Unlock()
	var out []string
	var walk func(n *mnode, prefix string)
	walk = func(n *mnode, prefix string) {
		names := make([]string, 0, len(n.children))
		for name := range n.children {
			names = append(names, name)
		}
		sort.Strings(names)
		for _, name := range names {
			c := n.children[name]
			if c.dir {
				out = append(out, prefix+name+"/")
				walk(c, prefix+name+"/")
			} else {
				out = append(out, prefix+name)
			}
		}
	}
	walk(fs.root, "")
	return out
}

// mdir implements filesystem.DirectoryCloser.
type mdir struct {
	fs *memFS
	n  *mnode
}

func notUsed(what string) error {
	return status.Error(codes.Unimplemented, "memFS: "+what+" is not used by the naive build directory")
}

func (d *mdir) EnterDirectory(name path.Component) (filesystem.DirectoryCloser, error) {
	d.fs.mu.Lock()
	defer d.fs.mu.Unlock()
	c := d.n.children[name.String()]
	if c == nil {
		return nil, syscall.ENOENT
	}
	if !c.dir {
		return nil, syscall.ENOTDIR
	}
	return &mdir{fs: d.fs, n: c}, nil
}

func (d *mdir) Close() error { return nil }

func (d *mdir) Mkdir(name path.Component, perm os.FileMode) error {
	d.fs.mu.Lock()
	defer d.fs.mu.Unlock()
	if d.n.children[name.String()] != nil {
		return syscall.EEXIST
	}
	d.n.children[name.String()] = &mnode{dir: true, children: map[string]*mnode{}}
	return nil
}

func (d *mdir) Symlink(oldName path.Parser, newName path.Component) error {
	return notUsed("Symlink")
}

type mreader struct {
	fs *memFS
	n  *mnode
}

func (r *mreader) ReadAt(p []byte, off int64) (int, error) {
	r.fs.mu.Lock()
	defer r.fs.mu.Unlock()
	if off >= int64(len(r.n.data)) {
		return 0, io.EOF
	}
	n := copy(p, r.n.data[off:])
	if n < len(p) {
		return n, io.EOF
	}
	return n, nil
}

func (r *mreader) Close() error { return nil }

func (r *mreader) Len() (int64, error) {
	r.fs.mu.Lock()
	defer r.fs.mu.Unlock()
	return int64(len(r.n.data)), nil
}

func (r *mreader) GetNextRegionOffset(off int64, regionType filesystem.RegionType) (int64, error) {
	return 0, notUsed("GetNextRegionOffset")
}

func (d *mdir) OpenRead(name path.Component) (filesystem.FileReader, error) {
	d.fs.mu.Lock()
	defer d.fs.mu.Unlock()
	c := d.n.children[name.String()]
	switch {
	case c == nil:
		return nil, syscall.ENOENT
	case c.dir:
		return nil, syscall.EISDIR
	case c.symlink:
		return nil, syscall.ELOOP
	}
	return &mreader{fs: d.fs, n: c}, nil
}

func minfo(name path.Component, c *mnode) filesystem.FileInfo {
	switch {
	case c.dir:
		return filesystem.NewFileInfo(name, filesystem.FileTypeDirectory, false)
	case c.symlink:
		return filesystem.NewFileInfo(name, filesystem.FileTypeSymlink, false)
	}
	return filesystem.NewFileInfo(name, filesystem.FileTypeRegularFile, c.exec)
}

func (d *mdir) Lstat(name path.Component) (filesystem.FileInfo, error) {
	d.fs.mu.Lock()
	defer d.fs.mu.Unlock()
	c := d.n.children[name.String()]
	if c == nil {
		return filesystem.FileInfo{}, syscall.ENOENT
	}
	return minfo(name, c), nil
}

func (d *mdir) ReadDir() ([]filesystem.FileInfo, error) {
	d.fs.mu.Lock()
	defer d.fs.mu.Unlock()
	names := make([]string, 0, len(d.n.children))
	for name := range d.n.children {
		names = append(names, name)
	}
	sort.Strings(names)
	out := make([]filesystem.FileInfo, 0, len(names))
	for _, name := range names {
		out = append(out, minfo(path.MustNewComponent(name), d.n.children[name]))
	}
	return out, nil
}

func (d *mdir) Readlink(name path.Component) (path.Parser, error) {
	d.fs.mu.Lock()
	defer d.fs.mu.Unlock()
	c := d.n.children[name.String()]
	if c == nil {
		return nil, syscall.ENOENT
	}
	if !c.symlink {
		return nil, syscall.EINVAL
	}
	return path.UNIXFormat.NewParser(c.target), nil
}

func (d *mdir) Remove(name path.Component) error {
	d.fs.mu.Lock()
	defer d.fs.mu.Unlock()
	c := d.n.children[name.String()]
	if c == nil {
		return syscall.ENOENT
	}
	if c.dir && len(c.children) > 0 {
		return syscall.ENOTEMPTY
	}
	delete(d.n.children, name.String())
	return nil
}

func (d *mdir) RemoveAll(name path.Component) error {
	d.fs.mu.Lock()
	defer d.fs.mu.Unlock()
	delete(d.n.children, name.String())
	return nil
}

func (d *mdir) RemoveAllChildren() error {
	d.fs.mu.Lock()
	defer d.fs.mu.Unlock()
	d.n.children = map[string]*mnode{}
	return nil
}

func (d *mdir) Sync() error                                       { return nil }
func (d *mdir) IsWritable() (bool, error)                         { return true, nil }
func (d *mdir) IsWritableChild(name path.Component) (bool, error) { return true, nil }

func (d *mdir) Chtimes(name path.Component, atime, mtime time.Time) error { return nil }

func (d *mdir) OpenAppend(name path.Component, creationMode filesystem.CreationMode) (filesystem.FileAppender, error) {
	return nil, notUsed("OpenAppend")
}

func (d *mdir) OpenReadWrite(name path.Component, creationMode filesystem.CreationMode) (filesystem.FileReadWriter, error) {
	return nil, notUsed("OpenReadWrite")
}

func (d *mdir) OpenWrite(name path.Component, creationMode filesystem.CreationMode) (filesystem.FileWriter, error) {
	return nil, notUsed("OpenWrite")
}

func (d *mdir) Link(oldName path.Component, newDirectory filesystem.Directory, newName path.Component) error {
	return notUsed("Link")
}

func (d *mdir) Clonefile(oldName path.Component, newDirectory filesystem.Directory, newName path.Component) error {
	return notUsed("Clonefile")
}

func (d *mdir) Mknod(name path.Component, perm os.FileMode, deviceNumber filesystem.DeviceNumber) error {
	return notUsed("Mknod")
}

func (d *mdir) Rename(oldName path.Component, newDirectory filesystem.Directory, newName path.Component) error {
	return notUsed("Rename")
}

func (d *mdir) Apply(arg interface{}) error { return notUsed("Apply") }

func (d *mdir) Mount(mountpoint path.Component, source, fstype string) error {
	return notUsed("Mount")
}

func (d *mdir) Unmount(mountpoint path.Component) error { return notUsed("Unmount") }

package w4

// World function for property C12 (each action runs isolated and leaves
// nothing behind), seen through the real LocalBuildExecutor: 2-3 executor
// "threads" of one worker, composed as in cmd/bb_worker (each thread has its
// own batched CAS writer, suspendable clock, build directory creator stack and
// file pool; all threads share the virtual build directory, the IdleInvoker
// and the counter of SharedBuildDirectoryCreator), call Execute concurrently.

import (
	"context"
	"fmt"
	"net/url"
	"sort"
	"strings"
	"sync/atomic"
	"time"

	remoteexecution "github.com/bazelbuild/remote-apis/build/bazel/remote/execution/v2"
	re_blobstore "github.com/buildbarn/bb-remote-execution/pkg/blobstore"
	"github.com/buildbarn/bb-remote-execution/pkg/builder"
	re_cas "github.com/buildbarn/bb-remote-execution/pkg/cas"
	"github.com/buildbarn/bb-remote-execution/pkg/cleaner"
	re_clock "github.com/buildbarn/bb-remote-execution/pkg/clock"
	"github.com/buildbarn/bb-remote-execution/pkg/filesystem/pool"
	"github.com/buildbarn/bb-remote-execution/pkg/filesystem/virtual"
	"github.com/buildbarn/bb-remote-execution/pkg/proto/remoteworker"
	runner_pb "github.com/buildbarn/bb-remote-execution/pkg/proto/runner"
	"github.com/buildbarn/bb-remote-execution/pkg/verifsim/simenv"
	"github.com/buildbarn/bb-remote-execution/pkg/verifsim/simrun"
	"github.com/buildbarn/bb-remote-execution/pkg/verifsim/simsync"
	"github.com/buildbarn/bb-storage/pkg/digest"
	"github.com/buildbarn/bb-storage/pkg/filesystem/path"
	"golang.org/x/sync/semaphore"
	"google.golang.org/grpc"
	"google.golang.org/grpc/codes"
	"google.golang.org/grpc/status"
	"google.golang.org/protobuf/types/known/durationpb"
	"google.golang.org/protobuf/types/known/emptypb"
	"google.golang.org/protobuf/types/known/timestamppb"
)

type c12Action struct {
	idx        int
	doNotCache bool
	inputFile  bool
	output     string // declared output path ("" = none)
	action     *remoteexecution.Action
	digest     digest.Digest
	key        string
}

type c12Job struct {
	id     int
	th     *c12Thread
	a      *c12Action
	hold   int
	result int // outcomeOK, outcomeExit, outcomeError

	ctx       context.Context
	cancel    context.CancelFunc
	cancelled bool
	mayCancel bool
	inFlight  bool

	// Observations (ticks of the world's logical clock; 0 = never).
	getStart  int
	getEnd    int
	closeEnd  int
	gotDir    bool
	path      string
	getErr    error
	ranRunner bool
	resp      *remoteexecution.ExecuteResponse
}

func (j *c12Job) String() string {
	return fmt.Sprintf("job%d(thread %d, action#%d do_not_cache=%v, hold=%d, %s)", j.id, j.th.idx, j.a.idx, j.a.doNotCache, j.hold, outcomeNames[j.result])
}

type c12Thread struct {
	idx   int
	name  string
	w     *c12World
	be    builder.BuildExecutor
	pool  *memPool
	jobs  []*c12Job
	cur   *c12Job
	actor *simsync.Actor
}

type cleanRec struct {
	start int
	ok    bool
	done  bool
}

type c12World struct {
	r *simrun.Run
	k *simsync.Kernel
	t *simsync.Tape

	df      digest.Function
	store   *store
	clock   *simenv.SimClock
	root    virtual.PrepopulatedDirectory
	actions []*c12Action
	threads []*c12Thread
	jobs    []*c12Job

	faultFree bool
	stopping  bool

	// Oracle state. Everything below is only touched by an actor right
	// after one of its own park points, or by the controller.
	tick         int
	uOut         int // threads inside CleanBuildDirectoryCreator (Get entered .. Close returned)
	uIn          int // threads that hold the invoker for sure (acquired .. about to release)
	inClean      int
	running      int // runner stubs in their running section
	busyStart    int
	cleans       []*cleanRec
	failedCleans []int
	lastInClose  int
	occupied     map[string]*c12Job
	maxOccupied  int
}

func (w *c12World) now() int { w.tick++; return w.tick }

func (w *c12World) violate(rule, msg string) {
	var js []string
	for _, j := range w.jobs {
		st := "not started"
		switch {
		case j.resp != nil:
			st = "returned " + status.FromProto(j.resp.Status).Code().String()
			if j.resp.Status != nil {
				st += fmt.Sprintf("(%q)", j.resp.Status.Message)
			}
		case j.inFlight:
			st = "in flight"
		}
		js = append(js, fmt.Sprintf("%s dir=%q acquire=[%d,%d] closed=%d: %s", j, j.path, j.getStart, j.getEnd, j.closeEnd, st))
	}
	w.k.Violate(rule, fmt.Sprintf("%s\n(tick %d; holders=%d inside-clean-creator=%d cleaning=%d runners=%d)\njobs:\n  %s", msg, w.tick, w.uIn, w.uOut, w.inClean, w.running, strings.Join(js, "\n  ")))
}

// --- probes: transparent BuildDirectoryCreators ---------------------------------

type probeCreator struct {
	base  builder.BuildDirectoryCreator
	th    *c12Thread
	level int // 0: above Shared; 1: between Shared and Clean; 2: between Clean and Root
}

type probeDirectory struct {
	builder.BuildDirectory
	p   *probeCreator
	job *c12Job
}

func (p *probeCreator) GetBuildDirectory(ctx context.Context, actionDigestIfNotRunInParallel *digest.Digest) (builder.BuildDirectory, *path.Trace, error) {
	w := p.th.w
	job := p.th.cur
	w.k.Yield(fmt.Sprintf("probe%d-get", p.level))
	switch p.level {
	case 0:
		job.getStart = w.now()
	case 1:
		if w.uOut == 0 {
			w.busyStart = w.now()
		}
		w.uOut++
	}
	dir, tr, err := p.base.GetBuildDirectory(ctx, actionDigestIfNotRunInParallel)
	w.k.Yield(fmt.Sprintf("probe%d-got", p.level))
	switch p.level {
	case 0:
		job.getEnd = w.now()
		job.getErr = err
		if err == nil {
			job.gotDir = true
			job.path = tr.GetUNIXString()
			if other := w.occupied[job.path]; other != nil && other != job {
				w.violate("C12/shared-directory", fmt.Sprintf("%s was given build directory %q while %s is still using it", job, job.path, other))
			}
			w.occupied[job.path] = job
			if len(w.occupied) > w.maxOccupied {
				w.maxOccupied = len(w.occupied)
			}
			for _, other := range w.occupied {
				if other != job && other.a == job.a {
					if job.a.doNotCache {
						w.k.Probe("identical-do-not-cache-actions-hold-directories-at-once")
					} else {
						w.k.Probe("identical-cacheable-actions-hold-directories-at-once")
					}
				}
			}
		}
	case 1:
		if err != nil {
			w.uOut--
		}
	case 2:
		if err == nil {
			w.uIn++
			if w.inClean > 0 {
				w.violate("C12/clean-while-in-use", fmt.Sprintf("%s acquired the build directory while a cleaner is running", job))
			}
			cleaned := false
			for _, c := range w.cleans {
				if c.start > w.busyStart && c.done && c.ok {
					cleaned = true
				}
			}
			if !cleaned {
				w.violate("C12/acquired-without-clean", fmt.Sprintf("%s acquired the build directory although no cleaner call succeeded since the worker was last idle (tick %d)", job, w.busyStart))
			}
		}
	}
	if err != nil {
		return nil, nil, err
	}
	return &probeDirectory{BuildDirectory: dir, p: p, job: job}, tr, nil
}

func (d *probeDirectory) Close() error {
	p := d.p
	w := p.th.w
	w.k.Yield(fmt.Sprintf("probe%d-close", p.level))
	switch p.level {
	case 0:
		if w.occupied[d.job.path] == d.job {
			delete(w.occupied, d.job.path)
		}
	case 2:
		w.uIn--
		w.lastInClose = w.now()
	}
	err := d.BuildDirectory.Close()
	w.k.Yield(fmt.Sprintf("probe%d-closed", p.level))
	switch p.level {
	case 0:
		d.job.closeEnd = w.now()
	case 1:
		w.uOut--
	}
	return err
}

// clean is the instrumented cleaner of the shared IdleInvoker.
func (w *c12World) clean(ctx context.Context) error {
	opt := w.k.Seam("cleaner", "ok", "cleaner-fail")
	rec := &cleanRec{start: w.now()}
	w.cleans = append(w.cleans, rec)
	w.k.Probe("cleaner-called")
	if w.uIn != 0 || w.inClean != 0 || w.running != 0 {
		w.violate("C12/clean-while-in-use", fmt.Sprintf("the build directory cleaner was started while %d action(s) hold the build directory, %d command(s) run and %d other cleaner call(s) are in progress", w.uIn, w.running, w.inClean))
	}
	w.inClean++
	var err error
	if opt == 1 {
		err = status.Error(codes.Internal, "injected cleaner failure")
	} else {
		err = w.root.RemoveAllChildren(false)
	}
	w.k.Yield("cleaner-done")
	w.inClean--
	rec.done = true
	rec.ok = err == nil
	if err != nil {
		w.failedCleans = append(w.failedCleans, w.now())
	}
	return err
}

// --- file system inspection -------------------------------------------------------

// listTree returns the paths below the directory dir/name of the virtual file system.
func listTree(dir virtual.PrepopulatedDirectory, prefix string, out *[]string) error {
	dirs, leaves, err := dir.LookupAllChildren()
	if err != nil {
		return err
	}
	for _, l := range leaves {
		*out = append(*out, prefix+l.Name.String())
	}
	for _, d := range dirs {
		*out = append(*out, prefix+d.Name.String()+"/")
		if err := listTree(d.Child, prefix+d.Name.String()+"/", out); err != nil {
			return err
		}
	}
	return nil
}

func (w *c12World) enter(p string) (virtual.PrepopulatedDirectory, error) {
	dir := w.root
	for _, c := range splitPath(p) {
		child, err := dir.LookupChild(path.MustNewComponent(c))
		if err != nil {
			return nil, err
		}
		d, _ := child.GetPair()
		if d == nil {
			return nil, fmt.Errorf("%s is not a directory", c)
		}
		dir = d
	}
	return dir, nil
}

// --- runner stub ------------------------------------------------------------------

type c12Runner struct{ th *c12Thread }

func (r *c12Runner) CheckReadiness(ctx context.Context, in *runner_pb.CheckReadinessRequest, opts ...grpc.CallOption) (*emptypb.Empty, error) {
	return &emptypb.Empty{}, nil
}

func (r *c12Runner) inspect(job *c12Job, buildDir string, atStart bool) {
	w := r.th.w
	dir, err := w.enter(buildDir)
	if err != nil {
		w.violate("C12/directory-missing", fmt.Sprintf("%s: its build directory %q cannot be entered while its command runs: %v", job, buildDir, err))
		return
	}
	var entries []string
	if err := listTree(dir, "", &entries); err != nil {
		panic(simsync.HarnessError{Msg: "listing the build directory: " + err.Error()})
	}
	sort.Strings(entries)
	own := fmt.Sprintf("marker-%d", job.id)
	for _, e := range entries {
		base := e[strings.LastIndex(strings.TrimSuffix(e, "/"), "/")+1:]
		if strings.HasPrefix(base, "marker-") && base != own {
			w.violate("C12/foreign-file", fmt.Sprintf("%s finds %q of another execution in its build directory %q (contents: %v)", job, e, buildDir, entries))
			return
		}
		if !atStart {
			continue
		}
		switch e {
		case "root/", "tmp/", "server_logs/", "root/in.txt", "root/d/":
		default:
			w.violate("C12/directory-not-empty-at-start", fmt.Sprintf("%s starts its command in build directory %q, which already contains %q (contents: %v)", job, buildDir, e, entries))
			return
		}
	}
}

func (r *c12Runner) Run(ctx context.Context, in *runner_pb.RunRequest, opts ...grpc.CallOption) (*runner_pb.RunResponse, error) {
	th := r.th
	w := th.w
	k := w.k
	job := th.cur
	k.Yield("runner-start")
	job.ranRunner = true
	w.running++
	k.Probe("runner-ran")
	if w.inClean > 0 {
		w.violate("C12/clean-while-in-use", fmt.Sprintf("the command of %s starts while a cleaner is running", job))
	}
	buildDir := strings.TrimSuffix(in.InputRootDirectory, "/root")
	if buildDir != job.path {
		w.violate("C12/shared-directory", fmt.Sprintf("%s was given directory %q by the build directory creator but its command is told to run in %q", job, job.path, buildDir))
	}
	if w.running >= 2 {
		k.Probe("commands-overlap")
	}
	r.inspect(job, buildDir, true)
	bg := context.Background()
	fsFailed := false
	put := func(p string, data string) {
		if err := writeFile(bg, w.root, p, []byte(data), false); err != nil {
			fsFailed = true
		}
	}
	marker := fmt.Sprintf("marker-%d", job.id)
	put(in.StdoutPath, fmt.Sprintf("stdout of job %d\n", job.id))
	put(in.StderrPath, "")
	put(in.InputRootDirectory+"/"+marker, marker)
	put(in.TemporaryDirectory+"/"+marker, marker)
	if job.a.output != "" {
		put(in.InputRootDirectory+"/"+job.a.output, fmt.Sprintf("output of job %d\n", job.id))
	}
	if fsFailed && !k.Failed() {
		w.violate("C12/directory-missing", fmt.Sprintf("%s cannot create files in its build directory %q while its command runs", job, buildDir))
	}
	cancelled := false
	for i := 0; i < job.hold && !cancelled; i++ {
		k.Seam("runner-hold")
		if ctx.Err() != nil {
			cancelled = true
		}
	}
	k.Yield("runner-end")
	r.inspect(job, buildDir, false)
	w.running--
	switch {
	case cancelled:
		return nil, status.FromContextError(ctx.Err()).Err()
	case job.result == outcomeError:
		return nil, status.Error(codes.Internal, "runner: command crashed")
	case job.result == outcomeExit:
		return &runner_pb.RunResponse{ExitCode: 3}, nil
	}
	return &runner_pb.RunResponse{}, nil
}

// --- construction ------------------------------------------------------------------

func newC12World(r *simrun.Run) *c12World {
	w := &c12World{r: r, k: r.K, t: r.T, occupied: map[string]*c12Job{}}
	t := w.t
	k := w.k
	w.df = digest.MustNewFunction("main", remoteexecution.DigestFunction_SHA256)
	w.store = newStore(k, w.df)
	w.clock = simenv.NewSimClock(k, startTime)
	w.faultFree = t.Bool(1, 3)
	if w.faultFree {
		k.FaultsOn = false
	} else {
		w.store.randomRate = 1
		w.store.randomKinds = []int{fErrBefore, fErrAfter}
	}

	// Actions.
	na := 1 + t.Weighted([]int{3, 2})
	for i := 0; i < na; i++ {
		a := &c12Action{idx: i, doNotCache: t.Bool(1, 2), inputFile: t.Bool(1, 3), output: pick(t, []string{"out.txt", "d/o.txt", ""})}
		command := &remoteexecution.Command{Arguments: []string{"/bin/tool", fmt.Sprintf("--action=%d", i)}}
		if a.output != "" {
			command.OutputPaths = []string{a.output}
		}
		commandDigest := w.store.preload(w.df, mustMarshal(command))
		inputRoot := &remoteexecution.Directory{}
		if a.inputFile {
			fd := w.store.preload(w.df, []byte("input\n"))
			inputRoot.Files = []*remoteexecution.FileNode{{Name: "in.txt", Digest: fd.GetProto()}}
		}
		inputRootDigest := w.store.preload(w.df, mustMarshal(inputRoot))
		a.action = &remoteexecution.Action{
			CommandDigest:   commandDigest.GetProto(),
			InputRootDigest: inputRootDigest.GetProto(),
			DoNotCache:      a.doNotCache,
			Timeout:         durationpb.New(actionTimeout),
		}
		a.digest = computeDigest(w.df, mustMarshal(a.action))
		a.key = blobKey(a.digest)
		w.actions = append(w.actions, a)
		r.Logf("action#%d do_not_cache=%v input_file=%v output=%q digest=%s", i, a.doNotCache, a.inputFile, a.output, shortKey(a.key))
	}

	// Shared parts of the worker (cmd/bb_worker/main.go, virtual build directory).
	handleAllocator := virtual.NewNFSHandleAllocator(&detRand{s: 7})
	logger := &quietLogger{}
	rootAttributesSetter := func(requested virtual.AttributesMask, attributes *virtual.Attributes) {}
	w.root = virtual.NewInMemoryPrepopulatedDirectory(
		virtual.NewHandleAllocatingFileAllocator(
			virtual.NewPoolBackedFileAllocator(pool.EmptyFilePool, logger, rootAttributesSetter, virtual.NoNamedAttributesFactory),
			handleAllocator,
		),
		virtual.NewErrorSymlinkFactory(status.Error(codes.PermissionDenied, "Symlink outside build directory")),
		logger,
		handleAllocator,
		sort.Sort,
		func(string) bool { return false },
		w.clock,
		virtual.CaseSensitiveComponentNormalizer,
		rootAttributesSetter,
		virtual.NoNamedAttributesFactory,
	)
	characterDeviceFactory := virtual.NewHandleAllocatingCharacterDeviceFactory(virtual.BaseCharacterDeviceFactory, handleAllocator.New())
	idleInvoker := cleaner.NewIdleInvoker(w.clean)
	var nextParallelActionID atomic.Uint64
	defaultAttributesSetter := func(requested virtual.AttributesMask, attributes *virtual.Attributes) {
		attributes.SetOwnerUserID(1000)
		attributes.SetOwnerGroupID(1000)
	}
	symlinkFactory := virtual.NewHandleAllocatingSymlinkFactory(virtual.NewBaseSymlinkFactory(defaultAttributesSetter), handleAllocator.New(), path.LocalFormat)

	// Threads.
	nt := 2 + t.Choice(2)
	batch := 1 + t.Choice(3)
	for i := 0; i < nt; i++ {
		th := &c12Thread{idx: i, name: fmt.Sprintf("t%d", i), w: w, pool: &memPool{}}
		label := th.name + " "
		globalCAS := &fakeCAS{s: w.store, label: label}
		// The upload semaphore never blocks (see the comment in
		// execution.build about the race this avoids).
		writer, flusher := re_blobstore.NewBatchedStoreBlobAccess(globalCAS, digest.KeyWithoutInstance, batch, semaphore.NewWeighted(int64(batch)))
		suspendableClock := re_clock.NewSuspendableClock(w.clock, time.Hour, time.Second/10)
		buildDirectory := builder.NewVirtualBuildDirectory(
			w.root,
			re_cas.NewSuspendingDirectoryFetcher(re_cas.NewBlobAccessDirectoryFetcher(globalCAS, 1<<16, 1<<16), suspendableClock),
			re_blobstore.NewSuspendingBlobAccess(writer, suspendableClock),
			symlinkFactory,
			characterDeviceFactory,
			handleAllocator,
			defaultAttributesSetter,
			w.clock,
		)
		var creator builder.BuildDirectoryCreator = builder.NewRootBuildDirectoryCreator(buildDirectory)
		creator = &probeCreator{base: creator, th: th, level: 2}
		creator = builder.NewCleanBuildDirectoryCreator(creator, idleInvoker)
		creator = &probeCreator{base: creator, th: th, level: 1}
		creator = builder.NewSharedBuildDirectoryCreator(creator, &nextParallelActionID)
		creator = &probeCreator{base: creator, th: th, level: 0}
		var be builder.BuildExecutor = builder.NewLocalBuildExecutor(writer, creator, &c12Runner{th: th}, suspendableClock, time.Minute, nil, 1<<16, map[string]string{"PATH": "/bin"}, false)
		be = builder.NewFilePoolStatsBuildExecutor(
			builder.NewTimestampedBuildExecutor(
				builder.NewStorageFlushingBuildExecutor(be, flusher),
				w.clock,
				fmt.Sprintf("{\"thread\":\"%d\"}", i),
			),
		)
		th.be = builder.NewCachingBuildExecutor(be, &fakeCAS{s: w.store, historical: true, label: label}, &fakeAC{s: w.store, label: label}, &url.URL{Scheme: "http", Host: "browser.example"})
		nj := 1 + t.Choice(3)
		for j := 0; j < nj; j++ {
			job := &c12Job{id: len(w.jobs), th: th, a: pick(t, w.actions), hold: t.Choice(4), result: t.Weighted([]int{6, 1, 1}), mayCancel: t.Bool(1, 3)}
			job.ctx, job.cancel = context.WithCancel(context.Background())
			th.jobs = append(th.jobs, job)
			w.jobs = append(w.jobs, job)
		}
		w.threads = append(w.threads, th)
	}
	for _, j := range w.jobs {
		r.Logf("%s", j)
	}
	k.Note(fmt.Sprintf("C12 workload: fault-free=%v threads=%d batch=%d actions=%d jobs=%d", w.faultFree, nt, batch, na, len(w.jobs)))
	return w
}

func (th *c12Thread) loop() {
	w := th.w
	k := w.k
	for _, job := range th.jobs {
		k.Yield("job-start")
		th.cur = job
		job.inFlight = true
		request := &remoteworker.DesiredState_Executing{
			ActionDigest:    job.a.digest.GetProto(),
			Action:          job.a.action,
			QueuedTimestamp: timestamppb.New(startTime),
			DigestFunction:  remoteexecution.DigestFunction_SHA256,
		}
		updates := make(chan *remoteworker.CurrentState_Executing, 10)
		resp := th.be.Execute(job.ctx, th.pool, nil, w.df, request, updates)
		k.Yield("job-end")
		job.resp = resp
		job.inFlight = false
		th.cur = nil
		w.checkJob(job)
	}
}

// checkJob judges one finished execution.
func (w *c12World) checkJob(job *c12Job) {
	k := w.k
	if job.resp == nil {
		w.violate("C12/no-response", fmt.Sprintf("%s: Execute returned nil", job))
		return
	}
	if job.getStart == 0 {
		// Execute never asked for a build directory (cannot happen with
		// the requests of this world).
		panic(simsync.HarnessError{Msg: "Execute did not ask for a build directory"})
	}
	if job.gotDir {
		k.Probe("execution-got-directory")
		if job.closeEnd == 0 {
			w.violate("C12/directory-not-released", fmt.Sprintf("%s: Execute returned without closing its build directory %q", job, job.path))
		}
		return
	}
	// The execution was refused a build directory. Why?
	msg := job.getErr.Error()
	code := status.Code(job.getErr)
	cleanFailed := false
	for _, t := range w.failedCleans {
		if t > job.getStart && t < job.getEnd {
			cleanFailed = true
		}
	}
	switch {
	case strings.Contains(msg, "Failed to clean before acquiring build directory") && cleanFailed:
		k.Probe("refused-after-failed-clean")
	case job.cancelled && (code == codes.Canceled || code == codes.DeadlineExceeded):
		k.Probe("refused-after-cancellation")
	case strings.Contains(msg, "Failed to create build directory"):
		// SharedBuildDirectoryCreator documents that digest-named
		// directories are used for actions the scheduler deduplicates
		// (cacheable ones): a second identical cacheable action arriving
		// while the first one still runs is refused. Nothing else may be.
		excused := false
		if !job.a.doNotCache {
			for _, o := range w.jobs {
				// The twin owns (or is about to be told it owns) the
				// digest-named directory from some point after it asked
				// for it until its Close returned.
				if o != job && o.a == job.a && o.getStart > 0 && o.getStart < job.getEnd && (o.getEnd == 0 || o.gotDir) && (o.closeEnd == 0 || o.closeEnd > job.getStart) {
					excused = true
				}
			}
		}
		if excused {
			k.Probe("identical-cacheable-action-refused-while-twin-runs")
			return
		}
		w.violate("C12/no-own-directory", fmt.Sprintf("%s did not get a build directory of its own: %v", job, job.getErr))
	default:
		w.violate("C12/no-own-directory", fmt.Sprintf("%s did not get a build directory and neither a failed cleaner, a cancellation nor a running identical cacheable action explains it: %v", job, job.getErr))
	}
}

func (w *c12World) events() []simsync.Event {
	evs := w.store.events()
	if w.faultFree || w.stopping {
		return evs
	}
	for _, th := range w.threads {
		job := th.cur
		if job == nil || !job.inFlight || job.cancelled || !job.mayCancel || th.actor == nil {
			continue
		}
		if !w.k.TreeQuiet(th.name, "runner-hold") {
			continue
		}
		victim := job
		evs = append(evs, simsync.Event{Key: "cancel " + th.name, Weight: 1, Fire: func() {
			w.k.FaultsFired["execution-cancelled"]++
			victim.cancelled = true
			victim.cancel()
		}})
	}
	return evs
}

func (w *c12World) allDone() bool {
	for _, th := range w.threads {
		if !th.actor.Done() {
			return false
		}
	}
	return true
}

func (w *c12World) run() {
	k := w.k
	k.AddSource(w.events)
	for _, th := range w.threads {
		th := th
		th.actor = k.Spawn(th.name, th.loop)
	}
	budget := 400 + 200*w.t.Choice(6)
	k.Run(budget)
	if k.Failed() {
		return
	}
	// Drain: no more faults, everything finishes.
	k.Note("drain")
	k.FaultsOn = false
	w.stopping = true
	w.store.randomRate = 0
	quiet := false
	for i := 0; i < 60 && !quiet; i++ {
		quiet = k.Run(1000)
		if k.Failed() {
			return
		}
	}
	if !quiet {
		panic(simsync.HarnessError{Msg: "C12 world did not come to rest within 60000 steps"})
	}
	for _, j := range w.jobs {
		j.cancel()
	}
	if !k.Run(1000) && !k.Failed() {
		panic(simsync.HarnessError{Msg: "C12 world: post-run drain did not come to rest"})
	}
	if k.Failed() {
		return
	}
	lockWaiters, blocked, seam := k.Stuck()
	if !w.allDone() || len(lockWaiters)+len(blocked)+len(seam) > 0 {
		w.violate("C12/never-finished", fmt.Sprintf("nothing is enabled any more but executions have not finished: lock-waiters=%v blocked=%v parked=%v held=%v", lockWaiters, blocked, seam, k.HeldLocks()))
		return
	}
	w.finalChecks()
}

func (w *c12World) finalChecks() {
	k := w.k
	var left []string
	if err := listTree(w.root, "", &left); err != nil {
		panic(simsync.HarnessError{Msg: err.Error()})
	}
	if len(left) > 0 {
		w.violate("C12/root-not-empty", fmt.Sprintf("all executions returned but the build directory of the worker still contains %v", left))
	}
	for _, th := range w.threads {
		if th.pool.open != 0 {
			w.violate("C12/files-left-behind", fmt.Sprintf("all executions returned but %d file(s) of the file pool of thread %d are still allocated", th.pool.open, th.idx))
		}
	}
	if w.uIn != 0 || w.uOut != 0 || len(w.occupied) != 0 {
		w.violate("C12/directory-not-released", fmt.Sprintf("all executions returned but %d still hold the build directory (%d directories in use)", w.uIn, len(w.occupied)))
	}
	if w.lastInClose > 0 {
		last := 0
		if n := len(w.cleans); n > 0 {
			last = w.cleans[n-1].start
		}
		if last < w.lastInClose {
			w.violate("C12/no-clean-when-idle", fmt.Sprintf("the last action released the build directory at tick %d but no cleaner ran afterwards (last cleaner call at tick %d)", w.lastInClose, last))
		}
	}
	got := 0
	for _, j := range w.jobs {
		if j.gotDir {
			got++
		}
	}
	w.r.Count("executions", len(w.jobs))
	w.r.Count("executions_with_directory", got)
	w.r.Count("cleaner_calls", len(w.cleans))
	if w.maxOccupied >= 2 {
		k.Probe("directories-held-concurrently")
	}
	w.r.State(fmt.Sprintf("threads=%d actions=%d jobs=%d max-held=%d cleans=%d", len(w.threads), len(w.actions), len(w.jobs), w.maxOccupied, len(w.cleans)))
	// Non-triviality: at least two executions held build directories at the
	// same time and the cleaner was called.
	w.r.NonTrivial = w.maxOccupied >= 2 && len(w.cleans) >= 1
}

// WorldC12 is the entry point registered for C12.
func WorldC12() simrun.World {
	return func(r *simrun.Run) {
		w := newC12World(r)
		w.run()
	}
}

package w4

import (
	"context"
	"fmt"
	"net/url"
	"sort"
	"strings"
	"sync/atomic"
	"time"

	remoteexecution "github.com/bazelbuild/remote-apis/build/bazel/remote/execution/v2"
	re_blobstore "github.com/buildbarn/bb-remote-execution/pkg/blobstore"
	"github.com/buildbarn/bb-remote-execution/pkg/builder"
	re_cas "github.com/buildbarn/bb-remote-execution/pkg/cas"
	"github.com/buildbarn/bb-remote-execution/pkg/cleaner"
	re_clock "github.com/buildbarn/bb-remote-execution/pkg/clock"
	"github.com/buildbarn/bb-remote-execution/pkg/filesystem/access"
	"github.com/buildbarn/bb-remote-execution/pkg/filesystem/pool"
	"github.com/buildbarn/bb-remote-execution/pkg/filesystem/virtual"
	"github.com/buildbarn/bb-remote-execution/pkg/proto/remoteworker"
	runner_pb "github.com/buildbarn/bb-remote-execution/pkg/proto/runner"
	"github.com/buildbarn/bb-remote-execution/pkg/verifsim/simenv"
	"github.com/buildbarn/bb-remote-execution/pkg/verifsim/simsync"
	"github.com/buildbarn/bb-storage/pkg/blobstore"
	"github.com/buildbarn/bb-storage/pkg/digest"
	"github.com/buildbarn/bb-storage/pkg/filesystem"
	"github.com/buildbarn/bb-storage/pkg/filesystem/path"
	"golang.org/x/sync/semaphore"
	"google.golang.org/grpc"
	"google.golang.org/grpc/codes"
	"google.golang.org/grpc/status"
	"google.golang.org/protobuf/proto"
	"google.golang.org/protobuf/types/known/durationpb"
	"google.golang.org/protobuf/types/known/emptypb"
	"google.golang.org/protobuf/types/known/timestamppb"
)

const actionTimeout = 10 * time.Minute

// execution is one call of the composed BuildExecutor on a fresh stack.
type execution struct {
	w    *world
	id   int
	plan plan
	df   digest.Function

	store  *store
	clock  *simenv.SimClock
	ctx    context.Context
	cancel context.CancelFunc
	actor  *simsync.Actor
	pool   *memPool
	recw   *recordingWriter
	sem    *semaphore.Weighted
	be     builder.BuildExecutor
	root   virtual.PrepopulatedDirectory

	request      *remoteworker.DesiredState_Executing
	actionDigest digest.Digest

	// Observations.
	resp           *remoteexecution.ExecuteResponse // what Execute returned
	returned       bool
	tapped         *remoteexecution.ExecuteResponse // what the caching decorator received from below
	failures       []callRecord
	faultsFired    int
	flushCalls     int
	flushFailed    bool
	acAttempts     int
	batchPutErrors int
	runnerRan      bool
	runnerExit0    bool // the runner stub reported a successful command
	runnerIOError  bool
	runnerWaiting  atomic.Bool
	advanced       bool

	// Native build directory configuration (late writes by a process the
	// action left behind).
	naive        bool
	fs           *memFS
	uploadPhase  bool
	lateTargets  []string
	lateWrites   int
	lateInWindow int
}

func (x *execution) violate(rule, msg string) {
	var calls []string
	for _, c := range x.store.calls {
		calls = append(calls, c.String())
	}
	x.w.k.Violate(rule, fmt.Sprintf("%s\nexecution %d (%s) of workload: %s\nstorage calls so far:\n  %s\nresponse: %s", msg, x.id, x.plan, x.w.wl, strings.Join(calls, "\n  "), describeResponse(x.resp, x.tapped)))
}

func describeResponse(resp, tapped *remoteexecution.ExecuteResponse) string {
	r := resp
	which := "returned"
	if r == nil {
		r = tapped
		which = "below-caching"
	}
	if r == nil {
		return "(none yet)"
	}
	s := fmt.Sprintf("[%s] status=%s", which, status.FromProto(r.Status).Code())
	if r.Status != nil {
		s += fmt.Sprintf("(%q)", r.Status.Message)
	}
	if res := r.Result; res != nil {
		s += fmt.Sprintf(" exit=%d files=%d dirs=%d symlinks=%d stdout=%v stderr=%v", res.ExitCode, len(res.OutputFiles), len(res.OutputDirectories), len(res.OutputSymlinks), res.StdoutDigest != nil, res.StderrDigest != nil)
	} else {
		s += " result=nil"
	}
	s += fmt.Sprintf(" server_logs=%d message=%q", len(r.ServerLogs), r.Message)
	return s
}

// tapExecutor sits directly below the caching decorator and remembers the
// response object that decorator will judge.
type tapExecutor struct {
	builder.BuildExecutor
	x *execution
}

func (t *tapExecutor) Execute(ctx context.Context, filePool pool.FilePool, monitor access.UnreadDirectoryMonitor, digestFunction digest.Function, request *remoteworker.DesiredState_Executing, executionStateUpdates chan<- *remoteworker.CurrentState_Executing) *remoteexecution.ExecuteResponse {
	resp := t.BuildExecutor.Execute(ctx, filePool, monitor, digestFunction, request, executionStateUpdates)
	t.x.tapped = resp
	return resp
}

func mustMarshal(m proto.Message) []byte {
	data, err := proto.MarshalOptions{Deterministic: true}.Marshal(m)
	if err != nil {
		panic(simsync.HarnessError{Msg: err.Error()})
	}
	return data
}

func newExecution(w *world, id int, p plan) *execution {
	wl := w.wl
	x := &execution{w: w, id: id, plan: p, pool: &memPool{}}
	x.df = digest.MustNewFunction(wl.instance, remoteexecution.DigestFunction_SHA256)
	x.store = newStore(w.k, x.df)
	switch p.mode {
	case planSingle:
		x.store.single = func(idx int, r *request) int {
			if idx == p.pos {
				return p.kind
			}
			return fNone
		}
	case planRandom:
		x.store.randomRate = p.rate
		x.store.randomKinds = []int{fErrBefore, fErrAfter, fCancelBefore, fCancelAfter, fCancelLater}
	}
	x.store.errOnPutOK = x.uploadSemaphoreFree
	x.store.cancel = func(*request) { x.cancel() }
	x.store.onACWrite = x.checkACWrite
	x.store.onCall = func(rec callRecord) {
		if rec.fault != fNone {
			x.faultsFired++
		}
		if rec.err != nil {
			x.failures = append(x.failures, rec)
		}
	}
	x.clock = simenv.NewSimClock(w.k, startTime)
	x.ctx, x.cancel = context.WithCancel(context.Background())

	// Blobs that exist before the action starts: command, input root and
	// (for some workloads) blobs equal to outputs the action will produce.
	command := &remoteexecution.Command{
		Arguments:             []string{"/bin/tool", fmt.Sprintf("--id=%d", id)},
		OutputPaths:           wl.outputPaths,
		WorkingDirectory:      wl.workingDir,
		OutputDirectoryFormat: wl.dirFormat,
	}
	commandDigest := x.store.preload(x.df, mustMarshal(command))
	inputRoot := &remoteexecution.Directory{}
	if wl.inputFile >= 0 {
		fileDigest := x.store.preload(x.df, contents[wl.inputFile])
		fn := &remoteexecution.FileNode{Name: "in.txt", Digest: fileDigest.GetProto()}
		if wl.workingDir == "" {
			inputRoot.Files = append(inputRoot.Files, fn)
		} else {
			sub := &remoteexecution.Directory{Files: []*remoteexecution.FileNode{fn}}
			subDigest := x.store.preload(x.df, mustMarshal(sub))
			inputRoot.Directories = append(inputRoot.Directories, &remoteexecution.DirectoryNode{Name: wl.workingDir, Digest: subDigest.GetProto()})
		}
	}
	inputRootDigest := x.store.preload(x.df, mustMarshal(inputRoot))
	for i, pre := range wl.preexisting {
		if pre {
			x.store.preload(x.df, contents[i])
		}
	}
	action := &remoteexecution.Action{
		CommandDigest:   commandDigest.GetProto(),
		InputRootDigest: inputRootDigest.GetProto(),
		DoNotCache:      wl.doNotCache,
		Timeout:         durationpb.New(actionTimeout),
	}
	x.actionDigest = computeDigest(x.df, mustMarshal(action))
	x.request = &remoteworker.DesiredState_Executing{
		ActionDigest:    x.actionDigest.GetProto(),
		Action:          action,
		QueuedTimestamp: timestamppb.New(startTime.Add(-time.Second)),
		DigestFunction:  remoteexecution.DigestFunction_SHA256,
	}
	if w.naive {
		x.naive = true
		x.buildNaive()
	} else {
		x.build()
	}
	return x
}

// build composes the executor stack as cmd/bb_worker/main.go does for a
// virtual build directory.
func (x *execution) build() {
	wl := x.w.wl
	globalCAS := &fakeCAS{s: x.store}
	actionCache := &fakeAC{s: x.store}

	// Upload concurrency. BatchedStoreBlobAccess hands the Puts of one flush
	// to errgroup goroutines; a dispatcher goroutine acquires the semaphore
	// for each of them. If a Put fails with an error of its own while the
	// dispatcher waits for the semaphore, the failing goroutine first
	// releases the semaphore (waking the dispatcher) and only then reports
	// its error to the errgroup (cancelling the group context): whether the
	// dispatcher still issues the next Put is a race inside the code under
	// test that no simulator decision controls (the outcome is the same
	// either way - the next blob is not stored and its buffer is released -
	// but the number of scheduling steps differs). To keep runs
	// reproducible, executions that inject such an error use a semaphore
	// that is at least as large as a batch, and the random-fault mode only
	// offers it while the semaphore has a free slot. Blocked dispatchers are
	// still exercised by the fault-free execution and by all cancellation
	// faults.
	size := wl.semaphore
	if x.plan.mode == planSingle && (x.plan.kind == fErrBefore || x.plan.kind == fErrAfter) && size < wl.batchSize {
		size = wl.batchSize
	}
	x.sem = semaphore.NewWeighted(int64(size))
	writer, flusher := re_blobstore.NewBatchedStoreBlobAccess(globalCAS, digest.KeyWithoutInstance, wl.batchSize, x.sem)
	x.recw = &recordingWriter{BlobAccess: writer, x: x, acked: map[string]bool{}}
	var casWriter blobstore.BlobAccess = x.recw

	suspendableClock := re_clock.NewSuspendableClock(x.clock, time.Hour, time.Second/10)
	handleAllocator := virtual.NewNFSHandleAllocator(&detRand{s: 42})
	logger := &quietLogger{}
	rootAttributesSetter := func(requested virtual.AttributesMask, attributes *virtual.Attributes) {}
	x.root = virtual.NewInMemoryPrepopulatedDirectory(
		virtual.NewHandleAllocatingFileAllocator(
			virtual.NewPoolBackedFileAllocator(pool.EmptyFilePool, logger, rootAttributesSetter, virtual.NoNamedAttributesFactory),
			handleAllocator,
		),
		virtual.NewErrorSymlinkFactory(status.Error(codes.PermissionDenied, "Symlink outside build directory")),
		logger,
		handleAllocator,
		sort.Sort,
		func(string) bool { return false },
		x.clock,
		virtual.CaseSensitiveComponentNormalizer,
		rootAttributesSetter,
		virtual.NoNamedAttributesFactory,
	)
	characterDeviceFactory := virtual.NewHandleAllocatingCharacterDeviceFactory(virtual.BaseCharacterDeviceFactory, handleAllocator.New())
	defaultAttributesSetter := func(requested virtual.AttributesMask, attributes *virtual.Attributes) {
		attributes.SetOwnerUserID(1000)
		attributes.SetOwnerGroupID(1000)
	}
	symlinkFactory := virtual.NewHandleAllocatingSymlinkFactory(virtual.NewBaseSymlinkFactory(defaultAttributesSetter), handleAllocator.New(), path.LocalFormat)
	directoryFetcher := re_cas.NewBlobAccessDirectoryFetcher(globalCAS, 1<<16, 1<<16)
	buildDirectory := builder.NewVirtualBuildDirectory(
		x.root,
		re_cas.NewSuspendingDirectoryFetcher(directoryFetcher, suspendableClock),
		re_blobstore.NewSuspendingBlobAccess(casWriter, suspendableClock),
		symlinkFactory,
		characterDeviceFactory,
		handleAllocator,
		defaultAttributesSetter,
		x.clock,
	)
	idleInvoker := cleaner.NewIdleInvoker(func(ctx context.Context) error {
		return x.root.RemoveAllChildren(false)
	})
	var nextParallelActionID atomic.Uint64
	buildDirectoryCreator := builder.NewSharedBuildDirectoryCreator(
		builder.NewCleanBuildDirectoryCreator(builder.NewRootBuildDirectoryCreator(buildDirectory), idleInvoker),
		&nextParallelActionID,
	)
	var be builder.BuildExecutor = builder.NewLocalBuildExecutor(
		casWriter,
		buildDirectoryCreator,
		&runnerStub{x: x},
		suspendableClock,
		time.Minute,
		nil,
		1<<16,
		map[string]string{"PATH": "/bin"},
		wl.forceTrees,
	)
	be = builder.NewMetricsBuildExecutor(
		builder.NewFilePoolStatsBuildExecutor(
			builder.NewTimestampedBuildExecutor(
				builder.NewStorageFlushingBuildExecutor(be, x.recw.flusher(flusher)),
				x.clock,
				"{\"worker\":\"w4\"}",
			),
		),
	)
	be = &tapExecutor{BuildExecutor: be, x: x}
	x.be = builder.NewCachingBuildExecutor(be, &fakeCAS{s: x.store, historical: true}, actionCache, &url.URL{Scheme: "http", Host: "browser.example"})
}

// buildNaive composes the stack as cmd/bb_worker/main.go does for a native
// build directory: NaiveBuildDirectory on a local directory (here an
// in-memory one), the plain clock, no suspending decorators.
func (x *execution) buildNaive() {
	wl := x.w.wl
	globalCAS := &fakeCAS{s: x.store}
	actionCache := &fakeAC{s: x.store}
	x.fs = newMemFS()
	x.sem = semaphore.NewWeighted(16)
	writer, flusher := re_blobstore.NewBatchedStoreBlobAccess(globalCAS, digest.KeyWithoutInstance, wl.batchSize, x.sem)
	// The buffers of this configuration must reach the CAS exactly as the
	// code under test built them (validated or checksum-verifying), so
	// they are not replaced by instrumented ones.
	x.recw = &recordingWriter{BlobAccess: writer, x: x, acked: map[string]bool{}, passThrough: true}
	var casWriter blobstore.BlobAccess = x.recw
	top := &mdir{fs: x.fs, n: x.fs.root}
	buildDirectory := builder.NewNaiveBuildDirectory(
		top,
		re_cas.NewBlobAccessDirectoryFetcher(globalCAS, 1<<16, 1<<16),
		nil,
		semaphore.NewWeighted(1),
		casWriter,
	)
	idleInvoker := cleaner.NewIdleInvoker(func(ctx context.Context) error { return top.RemoveAllChildren() })
	var nextParallelActionID atomic.Uint64
	buildDirectoryCreator := builder.NewSharedBuildDirectoryCreator(
		builder.NewCleanBuildDirectoryCreator(builder.NewRootBuildDirectoryCreator(buildDirectory), idleInvoker),
		&nextParallelActionID,
	)
	var be builder.BuildExecutor = builder.NewLocalBuildExecutor(casWriter, buildDirectoryCreator, &runnerStub{x: x}, x.clock, time.Minute, nil, 1<<16, map[string]string{"PATH": "/bin"}, wl.forceTrees)
	be = builder.NewMetricsBuildExecutor(
		builder.NewFilePoolStatsBuildExecutor(
			builder.NewTimestampedBuildExecutor(
				builder.NewStorageFlushingBuildExecutor(be, x.recw.flusher(flusher)),
				x.clock,
				"{\"worker\":\"w4-native\"}",
			),
		),
	)
	be = &tapExecutor{BuildExecutor: be, x: x}
	x.be = builder.NewCachingBuildExecutor(be, &fakeCAS{s: x.store, historical: true}, actionCache, &url.URL{Scheme: "http", Host: "browser.example"})
}

// uploadSemaphoreFree reports (at quiescence) whether the upload semaphore
// has a free slot and nobody waits for it, i.e. the dispatcher goroutine of
// a flush cannot be blocked on it.
func (x *execution) uploadSemaphoreFree() bool {
	if x.sem.TryAcquire(1) {
		x.sem.Release(1)
		return true
	}
	x.w.k.Probe("upload-semaphore-exhausted")
	return false
}

// events is the controller event source while this execution runs.
func (x *execution) events() []simsync.Event {
	evs := x.store.events()
	if x.runnerWaiting.Load() {
		// The runner stub waits for the execution timeout: let the clock
		// reach the deadline (once) and deliver due timers.
		wAdvance := 0
		if !x.advanced {
			wAdvance = 5
		}
		for _, e := range x.clock.ClockEvents(10, wAdvance, nil, nil) {
			e := e
			if strings.HasPrefix(e.Key, "advance") {
				fire := e.Fire
				e.Fire = func() { x.advanced = true; fire() }
			}
			evs = append(evs, e)
		}
	}
	if x.naive && x.plan.mode == planLate && x.uploadPhase && !x.returned && x.lateWrites < 2 {
		// A process the action left behind still writes to its outputs
		// while the worker uploads them. Offered while at least one write
		// sits in the batching layer, acknowledged but not yet flushed.
		x.recw.mu.Lock()
		pending := len(x.recw.acked)
		x.recw.mu.Unlock()
		if pending > 0 {
			for i, target := range x.lateTargets {
				i, target := i, target
				evs = append(evs, simsync.Event{Key: "late-overwrite " + target, Weight: 2, Fire: func() {
					before, _ := x.fs.read(target)
					x.recw.mu.Lock()
					enqueued := x.recw.acked[blobKey(computeDigest(x.df, before))]
					x.recw.mu.Unlock()
					if x.fs.overwrite(target, 5+i) {
						x.lateWrites++
						if enqueued {
							x.lateInWindow++
							x.w.k.Probe("in-place-overwrite-between-enqueue-and-flush")
						}
						x.w.k.FaultsFired["late-overwrite-in-place"]++
						x.w.k.Annotate("a process left behind overwrites a byte of %s in place", target)
					}
				}})
				evs = append(evs, simsync.Event{Key: "late-append " + target, Weight: 1, Fire: func() {
					if x.fs.appendTo(target, []byte("...and some more")) {
						x.lateWrites++
						x.w.k.FaultsFired["late-append"]++
						x.w.k.Annotate("a process left behind appends to %s", target)
					}
				}})
			}
		}
	}
	return evs
}

func (x *execution) run() {
	k := x.w.k
	k.Note(fmt.Sprintf("execution %d: %s", x.id, x.plan))
	x.actor = k.Spawn(fmt.Sprintf("x%d", x.id), func() {
		updates := make(chan *remoteworker.CurrentState_Executing, 10)
		x.resp = x.be.Execute(x.ctx, x.pool, nil, x.df, x.request, updates)
		x.returned = true
	})
	quiet := false
	for i := 0; i < 40 && !quiet; i++ {
		quiet = k.Run(1000)
		if k.Failed() {
			return
		}
	}
	if !quiet {
		panic(simsync.HarnessError{Msg: fmt.Sprintf("execution %d did not come to rest within 40000 steps", x.id)})
	}
	x.cancel()
	if !x.actor.Done() || !x.returned {
		lockWaiters, blocked, seam := k.Stuck()
		x.violate("C09/execute-never-returned", fmt.Sprintf("nothing is enabled any more but Execute has not returned: lock-waiters=%v blocked=%v parked=%v held=%v", lockWaiters, blocked, seam, k.HeldLocks()))
		return
	}
	// Let goroutines that only wait for the cancellation finish.
	if !k.Run(1000) {
		if k.Failed() {
			return
		}
		panic(simsync.HarnessError{Msg: "post-execution drain did not come to rest"})
	}
	if lockWaiters, blocked, seam := k.Stuck(); len(lockWaiters)+len(blocked)+len(seam) > 0 {
		x.violate("C09/execute-never-returned", fmt.Sprintf("Execute returned but goroutines of the stack never finished: lock-waiters=%v blocked=%v parked=%v held=%v", lockWaiters, blocked, seam, k.HeldLocks()))
		return
	}
	x.w.r.SimTime += x.clock.Global().Sub(startTime)
	x.finalChecks()
}

// --- oracle -------------------------------------------------------------------

// referencedBlobs lists every CAS digest an ActionResult refers to, each with
// a description, following Tree and Directory messages that are in the CAS.
func (x *execution) referencedBlobs(res *remoteexecution.ActionResult) (present []string, missing []string) {
	return referencedBlobs(x.store, res)
}

func referencedBlobs(st *store, res *remoteexecution.ActionResult) (present []string, missing []string) {
	if res == nil {
		return nil, nil
	}
	note := func(what string, d *remoteexecution.Digest) bool {
		if d == nil {
			return false
		}
		desc := fmt.Sprintf("%s %s/%d", what, shortKey(d.Hash), d.SizeBytes)
		if st.hasDigestProto(d) {
			present = append(present, desc)
			return true
		}
		missing = append(missing, desc)
		return false
	}
	for _, f := range res.OutputFiles {
		note("output file "+f.Path, f.Digest)
	}
	note("stdout", res.StdoutDigest)
	note("stderr", res.StderrDigest)
	var walkDirectory func(what string, d *remoteexecution.Directory)
	var walkDirectoryDigest func(what string, dd *remoteexecution.Digest, depth int)
	walkDirectory = func(what string, d *remoteexecution.Directory) {
		for _, f := range d.Files {
			note(what+"/"+f.Name, f.Digest)
		}
	}
	walkDirectoryDigest = func(what string, dd *remoteexecution.Digest, depth int) {
		if !note("directory message "+what, dd) || depth > 8 {
			return
		}
		data, _ := st.getProtoBlob(dd)
		var d remoteexecution.Directory
		if proto.Unmarshal(data, &d) != nil {
			missing = append(missing, "unparsable directory message "+what)
			return
		}
		walkDirectory(what, &d)
		for _, c := range d.Directories {
			walkDirectoryDigest(what+"/"+c.Name, c.Digest, depth+1)
		}
	}
	for _, od := range res.OutputDirectories {
		if od.TreeDigest != nil && note("tree of "+od.Path, od.TreeDigest) {
			data, _ := st.getProtoBlob(od.TreeDigest)
			var tree remoteexecution.Tree
			if proto.Unmarshal(data, &tree) != nil {
				missing = append(missing, "unparsable tree of "+od.Path)
			} else {
				if tree.Root != nil {
					walkDirectory("tree "+od.Path, tree.Root)
				}
				for _, c := range tree.Children {
					walkDirectory("tree "+od.Path+"/*", c)
				}
			}
		}
		if od.RootDirectoryDigest != nil {
			walkDirectoryDigest("root of "+od.Path, od.RootDirectoryDigest, 0)
		}
	}
	return present, missing
}

// checkACWrite runs at the instant the Action Cache receives a Put, whatever
// the fate of that call is going to be.
func (x *execution) checkACWrite(r *request, res *remoteexecution.ActionResult) {
	wl := x.w.wl
	k := x.w.k
	x.acAttempts++
	k.Probe("ac-put-attempted")
	if blobKey(r.d) != blobKey(x.actionDigest) {
		x.violate("C09/ac-write-wrong-key", fmt.Sprintf("the Action Cache entry is written under %s, the action digest is %s", r.d, x.actionDigest))
	}
	if wl.doNotCache {
		x.violate("C09/ac-write-do-not-cache", "an ActionResult is written to the Action Cache for an action with do_not_cache")
	}
	if t := x.tapped; t == nil {
		x.violate("C09/ac-write-unsuccessful", "an ActionResult is written to the Action Cache before the executors below the caching decorator returned a response")
	} else if status.ErrorProto(t.Status) != nil {
		x.violate("C09/ac-write-unsuccessful", fmt.Sprintf("an ActionResult is written to the Action Cache although the response carries status %s %q", status.FromProto(t.Status).Code(), t.Status.Message))
	} else if t.Result == nil || t.Result.ExitCode != 0 || res.ExitCode != 0 {
		x.violate("C09/ac-write-unsuccessful", "an ActionResult is written to the Action Cache although the exit code is not zero")
	}
	if !x.runnerExit0 {
		x.violate("C09/ac-write-unsuccessful", fmt.Sprintf("an ActionResult is written to the Action Cache although the command did not complete successfully (runner ran=%v, scripted outcome=%s, I/O error seen by the command=%v)", x.runnerRan, outcomeNames[wl.outcome], x.runnerIOError))
	}
	if len(x.failures) > 0 {
		x.violate("C09/ac-write-after-storage-failure", fmt.Sprintf("an ActionResult is written to the Action Cache although %d storage call(s) of this action failed, first: %s", len(x.failures), x.failures[0]))
	}
	if x.flushCalls == 0 {
		x.violate("C09/ac-write-before-flush", "an ActionResult is written to the Action Cache before the batched CAS writes were flushed")
	}
	if _, missing := x.referencedBlobs(res); len(missing) > 0 {
		x.violate("C09/ac-write-missing-blob", fmt.Sprintf("at the instant of the Action Cache write the CAS lacks blobs the ActionResult references: %v", missing))
	}
}

func (x *execution) finalChecks() {
	wl := x.w.wl
	k := x.w.k
	resp := x.resp
	if resp == nil {
		x.violate("C09/no-response", "Execute returned nil")
		return
	}
	ok := status.ErrorProto(resp.Status) == nil
	k.Annotate("execution %d finished: %s; failures=%d flushFailed=%v acWritten=%v", x.id, describeResponse(resp, nil), len(x.failures), x.flushFailed, (x.store.acWrites > 0))
	x.w.r.Logf("x%d %s -> %s failures=%d flush_failed=%v ac_entry=%v calls=%d", x.id, x.plan, describeResponse(resp, nil), len(x.failures), x.flushFailed, len(x.store.ac) > 0, len(x.store.calls))

	// A failed storage call must surface in the response.
	if len(x.failures) > 0 && ok {
		x.violate("C09/failure-not-reported", fmt.Sprintf("%d storage call(s) failed (first: %s) but the response has an OK status", len(x.failures), x.failures[0]))
	}
	// After a failed flush nothing may be advertised any more.
	if x.flushFailed {
		var left []string
		if res := resp.Result; res != nil {
			if len(res.OutputFiles) > 0 {
				left = append(left, fmt.Sprintf("%d output files", len(res.OutputFiles)))
			}
			if len(res.OutputDirectories) > 0 {
				left = append(left, fmt.Sprintf("%d output directories", len(res.OutputDirectories)))
			}
			if res.StdoutDigest != nil {
				left = append(left, "stdout digest")
			}
			if res.StderrDigest != nil {
				left = append(left, "stderr digest")
			}
		}
		if len(resp.ServerLogs) > 0 {
			left = append(left, fmt.Sprintf("%d server logs", len(resp.ServerLogs)))
		}
		if ok {
			x.violate("C09/failure-not-reported", "the flush of the batched CAS writes failed but the response has an OK status")
		}
		if len(left) > 0 {
			x.violate("C09/digests-after-flush-failure", fmt.Sprintf("the flush of the batched CAS writes failed but the response still advertises %v", left))
		}
	}
	// An OK response only advertises blobs that are stored.
	if ok {
		_, missing := x.referencedBlobs(resp.Result)
		keys := make([]string, 0, len(resp.ServerLogs))
		for name := range resp.ServerLogs {
			keys = append(keys, name)
		}
		sort.Strings(keys)
		for _, name := range keys {
			if d := resp.ServerLogs[name].GetDigest(); d != nil && !x.store.hasDigestProto(d) {
				missing = append(missing, "server log "+name)
			}
		}
		if len(missing) > 0 {
			x.violate("C09/ok-response-missing-blob", fmt.Sprintf("the response has an OK status but advertises blobs that are not in the CAS: %v", missing))
		}
	}
	// Action Cache contents at the end.
	if len(x.store.ac) > 0 {
		k.Probe("ac-entry-exists")
		if !ok {
			// Only a lost acknowledgement of the AC write itself explains an
			// entry next to a failed response.
			lostAck := false
			for _, c := range x.store.calls {
				if c.store == "ac" && c.effect && c.err != nil {
					lostAck = true
				}
			}
			if lostAck {
				k.Probe("ac-entry-with-lost-ack")
			} else {
				x.violate("C09/cached-with-error-response", "the response carries an error but an Action Cache entry exists (and no acknowledgement of the AC write was lost)")
			}
		}
	} else if ok && !wl.doNotCache && wl.outcome == outcomeOK && resp.Result.GetExitCode() == 0 {
		k.Probe("ok-but-not-cached")
	}
	// Every buffer handed to the batching layer is consumed exactly once.
	x.recw.mu.Lock()
	bufs := x.recw.buffers
	x.recw.mu.Unlock()
	for _, b := range bufs {
		b.mu.Lock()
		closes, late := b.closes, b.late
		b.mu.Unlock()
		switch {
		case closes == 0:
			x.violate("C09/buffer-not-consumed", fmt.Sprintf("buffer #%d (%s) handed to the batching layer was neither stored nor discarded", b.id, shortKey(b.key)))
		case closes > 1:
			x.violate("C09/buffer-consumed-twice", fmt.Sprintf("buffer #%d (%s) handed to the batching layer was released %d times", b.id, shortKey(b.key), closes))
		case late > 0:
			x.violate("C09/buffer-consumed-twice", fmt.Sprintf("buffer #%d (%s) handed to the batching layer was read after it had been released", b.id, shortKey(b.key)))
		}
	}
	k.Probes["buffers-tracked"] += len(bufs)
	if x.pool.open != 0 {
		k.Probe("pool-files-open-at-end")
	}
	if x.pool.dblClose != 0 {
		k.Probe("pool-file-closed-twice")
	}
	// Probes that show which situations were reached.
	if ok {
		k.Probe("response-ok")
	} else {
		k.Probe("response-error")
	}
	if x.flushFailed {
		k.Probe("flush-failed")
	}
	if x.batchPutErrors > 0 {
		k.Probe("batched-put-returned-error")
	}
	if x.store.acWrites > 0 {
		k.Probe("ac-written")
	}
	if x.store.maxPending >= 2 {
		k.Probe("concurrent-cas-puts-in-flight")
	}
	if x.plan.mode == planNone {
		k.Probe("fault-free-execution")
		if x.store.acWrites > 0 {
			k.Probe("fault-free-execution-cached")
		}
	}
	if len(x.failures) > 0 {
		k.Probe("execution-with-storage-failure")
	}
	k.Probe("outcome-" + outcomeNames[wl.outcome])
}

// --- runner stub ----------------------------------------------------------------

type runnerStub struct{ x *execution }

func (r *runnerStub) CheckReadiness(ctx context.Context, in *runner_pb.CheckReadinessRequest, opts ...grpc.CallOption) (*emptypb.Empty, error) {
	return &emptypb.Empty{}, nil
}

type fsError struct {
	op string
	s  virtual.Status
}

func (e fsError) Error() string { return fmt.Sprintf("%s: virtual file system status %d", e.op, e.s) }

func splitPath(p string) []string {
	var out []string
	for _, c := range strings.Split(p, "/") {
		if c != "" && c != "." {
			out = append(out, c)
		}
	}
	return out
}

// walk resolves (and optionally creates) a directory below dir.
func walk(ctx context.Context, dir virtual.Directory, components []string, create bool) (virtual.Directory, error) {
	for _, c := range components {
		name := path.MustNewComponent(c)
		var attrs virtual.Attributes
		child, s := dir.VirtualLookup(ctx, name, 0, &attrs)
		if s == virtual.StatusErrNoEnt && create {
			var out virtual.Attributes
			d, _, s2 := dir.VirtualMkdir(ctx, name, &virtual.Attributes{}, 0, &out)
			if s2 != virtual.StatusOK {
				return nil, fsError{"mkdir " + c, s2}
			}
			dir = d
			continue
		}
		if s != virtual.StatusOK {
			return nil, fsError{"lookup " + c, s}
		}
		d, _ := child.GetPair()
		if d == nil {
			return nil, fsError{"lookup " + c + " (not a directory)", virtual.StatusErrNotDir}
		}
		dir = d
	}
	return dir, nil
}

func writeFile(ctx context.Context, root virtual.Directory, p string, data []byte, exec bool) error {
	cs := splitPath(p)
	dir, err := walk(ctx, root, cs[:len(cs)-1], true)
	if err != nil {
		return err
	}
	perm := virtual.PermissionsRead | virtual.PermissionsWrite
	if exec {
		perm |= virtual.PermissionsExecute
	}
	var out virtual.Attributes
	leaf, _, _, s := dir.VirtualOpenChild(ctx, path.MustNewComponent(cs[len(cs)-1]), virtual.ShareMaskWrite, (&virtual.Attributes{}).SetPermissions(perm), &virtual.OpenExistingOptions{Truncate: true}, 0, &out)
	if s != virtual.StatusOK {
		return fsError{"open " + p, s}
	}
	defer leaf.VirtualClose(virtual.ShareMaskWrite)
	if len(data) > 0 {
		if _, s := leaf.VirtualWrite(ctx, data, 0); s != virtual.StatusOK {
			return fsError{"write " + p, s}
		}
	}
	return nil
}

func makeSymlink(ctx context.Context, root virtual.Directory, p, target string) error {
	cs := splitPath(p)
	dir, err := walk(ctx, root, cs[:len(cs)-1], true)
	if err != nil {
		return err
	}
	var out virtual.Attributes
	_, _, s := dir.VirtualMknod(ctx, path.MustNewComponent(cs[len(cs)-1]), (&virtual.Attributes{}).SetFileType(filesystem.FileTypeSymlink).SetSymlinkTarget(path.UNIXFormat.NewParser(target)), 0, &out)
	if s != virtual.StatusOK {
		return fsError{"symlink " + p, s}
	}
	return nil
}

func (r *runnerStub) Run(ctx context.Context, in *runner_pb.RunRequest, opts ...grpc.CallOption) (*runner_pb.RunResponse, error) {
	x := r.x
	wl := x.w.wl
	x.runnerRan = true
	x.w.k.Probe("runner-ran")
	if wl.outcome == outcomeError && wl.errorEarly {
		return nil, status.Error(codes.Internal, "runner: cannot start the command")
	}
	bg := context.Background()
	var top virtual.Directory = x.root
	fail := func(err error) (*runner_pb.RunResponse, error) {
		// A file system operation of the command failed. After an injected
		// storage failure (lazily loaded input directories) that is what a
		// real command would see: it exits with an error code. Without
		// one it is a defect of the harness.
		if len(x.failures) == 0 && x.ctx.Err() == nil {
			panic(simsync.HarnessError{Msg: "runner stub: " + err.Error()})
		}
		x.runnerIOError = true
		x.w.k.Probe("runner-saw-io-error")
		return &runner_pb.RunResponse{ExitCode: 74}, nil
	}
	// All paths are relative to the top of the worker's build directory.
	wf := func(p string, data []byte, exec bool) error {
		if x.naive {
			x.lateTargets = append(x.lateTargets, strings.Join(splitPath(p), "/"))
			return x.fs.writeFile(p, data, exec)
		}
		return writeFile(bg, top, p, data, exec)
	}
	sl := func(p, target string) error {
		if x.naive {
			return x.fs.symlink(p, target)
		}
		return makeSymlink(bg, top, p, target)
	}
	md := func(p string) error {
		if x.naive {
			return x.fs.mkdirAll(p)
		}
		_, err := walk(bg, top, splitPath(p), true)
		return err
	}
	if err := wf(in.StdoutPath, contents[wl.stdout], false); err != nil {
		return fail(err)
	}
	if err := wf(in.StderrPath, contents[wl.stderr], false); err != nil {
		return fail(err)
	}
	if !x.naive {
		if _, err := walk(bg, top, splitPath(in.InputRootDirectory), false); err != nil {
			return fail(err)
		}
	}
	ir := in.InputRootDirectory + "/"
	var err error
	for _, c := range wl.creates {
		switch c.kind {
		case nodeFile:
			if err := wf(ir+c.target, contents[c.content], c.exec); err != nil {
				return fail(err)
			}
		case nodeSymlink:
			if err := sl(ir+c.target, c.link); err != nil {
				return fail(err)
			}
		case nodeDir:
			if err := md(ir + c.target); err != nil {
				return fail(err)
			}
			for _, e := range trees[c.tree] {
				p := ir + c.target + "/" + e.path
				switch {
				case e.content >= 0:
					err = wf(p, contents[e.content], e.exec)
				case e.content == -1:
					err = sl(p, e.target)
				default:
					err = md(p)
				}
				if err != nil {
					return fail(err)
				}
			}
		}
	}
	for _, l := range wl.serverLogs {
		if err := wf(in.ServerLogsDirectory+"/"+l.path, contents[l.content], false); err != nil {
			return fail(err)
		}
	}
	x.uploadPhase = true
	switch wl.outcome {
	case outcomeError:
		return nil, status.Error(codes.Internal, "runner: command crashed")
	case outcomeTimeout:
		x.w.k.Probe("runner-waits-for-timeout")
		x.runnerWaiting.Store(true)
		<-ctx.Done()
		x.runnerWaiting.Store(false)
		return nil, status.FromContextError(ctx.Err()).Err()
	}
	x.runnerExit0 = wl.exitCode == 0
	return &runner_pb.RunResponse{ExitCode: int64(wl.exitCode)}, nil
}

package w4

// World function for property C11 (execution timeouts fire, compensated but
// bounded) seen end to end through the real LocalBuildExecutor: the executor
// gets the real SuspendableClock on top of a simulated base clock. Simulated
// time passes while storage calls are in flight (input preparation, reads of
// the command, uploads) and while the runner stub computes; the oracle keeps
// its own timeline of suspensions and judges the context handed to
// runner.Run, the response status and virtual_execution_duration.

import (
	"context"
	"fmt"
	"net/url"
	"sort"
	"strings"
	"sync/atomic"
	"time"

	remoteexecution "github.com/bazelbuild/remote-apis/build/bazel/remote/execution/v2"
	re_blobstore "github.com/buildbarn/bb-remote-execution/pkg/blobstore"
	"github.com/buildbarn/bb-remote-execution/pkg/builder"
	re_cas "github.com/buildbarn/bb-remote-execution/pkg/cas"
	"github.com/buildbarn/bb-remote-execution/pkg/cleaner"
	re_clock "github.com/buildbarn/bb-remote-execution/pkg/clock"
	"github.com/buildbarn/bb-remote-execution/pkg/filesystem/pool"
	"github.com/buildbarn/bb-remote-execution/pkg/filesystem/virtual"
	"github.com/buildbarn/bb-remote-execution/pkg/proto/remoteworker"
	runner_pb "github.com/buildbarn/bb-remote-execution/pkg/proto/runner"
	"github.com/buildbarn/bb-remote-execution/pkg/verifsim/simenv"
	"github.com/buildbarn/bb-remote-execution/pkg/verifsim/simrun"
	"github.com/buildbarn/bb-remote-execution/pkg/verifsim/simsync"
	"github.com/buildbarn/bb-storage/pkg/digest"
	"github.com/buildbarn/bb-storage/pkg/filesystem/path"
	"golang.org/x/sync/semaphore"
	"google.golang.org/grpc"
	"google.golang.org/grpc/codes"
	"google.golang.org/grpc/status"
	"google.golang.org/protobuf/types/known/durationpb"
	"google.golang.org/protobuf/types/known/emptypb"
	"google.golang.org/protobuf/types/known/timestamppb"
)

const c11Threshold = time.Second / 10

// suspRecorder is the Suspendable handed to SuspendingBlobAccess and
// SuspendingDirectoryFetcher: it forwards to the real SuspendableClock and
// keeps the oracle's own timeline.
type suspEvent struct {
	at    time.Time
	delta int
}

type suspRecorder struct {
	base   re_clock.Suspendable
	sim    *simenv.SimClock
	events []suspEvent
}

func (s *suspRecorder) Suspend() {
	s.base.Suspend()
	s.events = append(s.events, suspEvent{s.sim.Global(), 1})
}

func (s *suspRecorder) Resume() {
	s.events = append(s.events, suspEvent{s.sim.Global(), -1})
	s.base.Resume()
}

// unsuspended integrates the time in [a, b] during which no suspension was
// active; stalled reports whether any suspension overlapped the interval.
func (s *suspRecorder) unsuspended(a, b time.Time) (u time.Duration, stalled bool) {
	level := 0
	cur := a
	for _, e := range s.events {
		if !e.at.After(a) {
			level += e.delta
			continue
		}
		if e.at.After(b) {
			break
		}
		if level == 0 {
			u += e.at.Sub(cur)
		} else if e.at.After(cur) {
			stalled = true
		}
		cur = e.at
		level += e.delta
	}
	if level == 0 {
		u += b.Sub(cur)
	} else if b.After(cur) {
		stalled = true
	}
	return u, stalled
}

type c11Segment struct {
	compute time.Duration // > 0: compute for this long (wall time)
	read    bool          // read the input file through the virtual file system (may stall on storage)
}

type c11Exec struct {
	id        int
	w         *c11World
	timeout   time.Duration
	script    []c11Segment
	exitCode  int64
	hasInput  bool
	output    bool
	mayCancel bool

	action *remoteexecution.Action
	digest digest.Digest
	ctx    context.Context
	cancel context.CancelFunc

	// Observations.
	tExec           time.Time
	callerCancelled bool
	tCancel         time.Time
	runCalled       bool
	tRun            time.Time
	errAtStart      error
	deadline        time.Time
	hasDeadline     bool
	doneSeen        bool
	tDone           time.Time
	doneErr         error
	cut             bool // the runner returned because its context was done
	cutErr          error
	finished        bool // the runner completed its script
	tEnd            time.Time
	ioError         bool
	failures        int
	resp            *remoteexecution.ExecuteResponse
	returned        bool
}

func (x *c11Exec) String() string {
	var segs []string
	for _, s := range x.script {
		if s.read {
			segs = append(segs, "read")
		} else {
			segs = append(segs, "compute "+s.compute.String())
		}
	}
	return fmt.Sprintf("execution %d: timeout=%s script=[%s] exit=%d input=%v output=%v may-cancel=%v", x.id, x.timeout, strings.Join(segs, ", "), x.exitCode, x.hasInput, x.output, x.mayCancel)
}

type c11World struct {
	r *simrun.Run
	k *simsync.Kernel
	t *simsync.Tape

	df        digest.Function
	store     *store
	sim       *simenv.SimClock
	rec       *suspRecorder
	maxSusp   time.Duration
	root      virtual.PrepopulatedDirectory
	be        builder.BuildExecutor
	pool      *memPool
	execs     []*c11Exec
	cur       *c11Exec
	faultFree bool
	stopping  bool
	actor     *simsync.Actor
	prepLong  int
}

func (w *c11World) violate(x *c11Exec, rule, msg string) {
	var calls []string
	for _, c := range w.store.calls {
		calls = append(calls, c.String())
	}
	rel := func(t time.Time) string {
		if t.IsZero() {
			return "-"
		}
		return t.Sub(startTime).String()
	}
	obs := fmt.Sprintf("Execute called at %s; Run called=%v at %s (ctx error at that instant: %v; deadline %s); run context done at %s with %v; runner returned at %s (cut=%v finished=%v io-error=%v); caller cancelled=%v at %s; max suspension=%s",
		rel(x.tExec), x.runCalled, rel(x.tRun), x.errAtStart, rel(x.deadline), rel(x.tDone), x.doneErr, rel(x.tEnd), x.cut, x.finished, x.ioError, x.callerCancelled, rel(x.tCancel), w.maxSusp)
	var sus []string
	for _, e := range w.rec.events {
		sus = append(sus, fmt.Sprintf("%s:%+d", rel(e.at), e.delta))
	}
	w.k.Violate(rule, fmt.Sprintf("%s\n%s\n%s\nsuspensions: %v\nresponse: %s\nstorage calls:\n  %s", msg, x, obs, sus, describeResponse(x.resp, nil), strings.Join(calls, "\n  ")))
}

// --- runner stub ------------------------------------------------------------------

type c11Runner struct{ w *c11World }

func (r *c11Runner) CheckReadiness(ctx context.Context, in *runner_pb.CheckReadinessRequest, opts ...grpc.CallOption) (*emptypb.Empty, error) {
	return &emptypb.Empty{}, nil
}

func (r *c11Runner) Run(ctx context.Context, in *runner_pb.RunRequest, opts ...grpc.CallOption) (*runner_pb.RunResponse, error) {
	w := r.w
	k := w.k
	x := w.cur
	x.runCalled = true
	x.tRun = w.sim.Global()
	x.errAtStart = ctx.Err()
	x.deadline, x.hasDeadline = ctx.Deadline()
	k.Probe("runner-called")
	// An independent observer of the instant at which the run context ends.
	k.Spawn(fmt.Sprintf("watch%d", x.id), func() {
		<-ctx.Done()
		x.tDone = w.sim.Global()
		x.doneErr = ctx.Err()
		x.doneSeen = true
	})
	bg := context.Background()
	fsFail := func(err error) (*runner_pb.RunResponse, error) {
		if x.failures == 0 && !x.callerCancelled {
			panic(simsync.HarnessError{Msg: "C11 runner stub: " + err.Error()})
		}
		x.ioError = true
		x.tEnd = w.sim.Global()
		return &runner_pb.RunResponse{ExitCode: 74}, nil
	}
	if err := writeFile(bg, w.root, in.StdoutPath, []byte(fmt.Sprintf("stdout %d\n", x.id)), false); err != nil {
		return fsFail(err)
	}
	if err := writeFile(bg, w.root, in.StderrPath, nil, false); err != nil {
		return fsFail(err)
	}
	inputRoot, err := walk(bg, w.root, splitPath(in.InputRootDirectory), false)
	if err != nil {
		return fsFail(err)
	}
	if x.output {
		if err := writeFile(bg, inputRoot, "out.txt", []byte(fmt.Sprintf("output %d\n", x.id)), false); err != nil {
			return fsFail(err)
		}
	}
	for _, seg := range x.script {
		if seg.read {
			var attrs virtual.Attributes
			child, s := inputRoot.VirtualLookup(bg, path.MustNewComponent("in.txt"), 0, &attrs)
			if s != virtual.StatusOK {
				return fsFail(fsError{"lookup in.txt", s})
			}
			_, leaf := child.GetPair()
			buf := make([]byte, 16)
			if _, _, s := leaf.VirtualRead(bg, buf, 0); s != virtual.StatusOK {
				// The read failed (injected storage error): the command
				// sees EIO; the executor's I/O error hook cancels the run.
				x.ioError = true
				k.Probe("runner-read-failed")
			} else {
				k.Probe("runner-read-input")
			}
			if ctx.Err() != nil {
				x.cut = true
			}
		} else {
			timer, ch := w.sim.NewTimer(seg.compute)
			select {
			case <-ctx.Done():
				timer.Stop()
				x.cut = true
			case <-ch:
			}
		}
		if x.cut {
			break
		}
	}
	x.tEnd = w.sim.Global()
	if x.cut {
		x.cutErr = ctx.Err()
		return nil, status.FromContextError(x.cutErr).Err()
	}
	x.finished = true
	return &runner_pb.RunResponse{ExitCode: x.exitCode}, nil
}

// --- construction ------------------------------------------------------------------

func newC11World(r *simrun.Run) *c11World {
	w := &c11World{r: r, k: r.K, t: r.T, pool: &memPool{}}
	t := w.t
	k := w.k
	w.df = digest.MustNewFunction("main", remoteexecution.DigestFunction_SHA256)
	w.store = newStore(k, w.df)
	w.sim = simenv.NewSimClock(k, startTime)
	w.faultFree = t.Bool(1, 3)
	if w.faultFree {
		k.FaultsOn = false
	} else {
		w.store.randomRate = 1
		w.store.randomKinds = []int{fErrBefore}
	}
	w.store.onCall = func(rec callRecord) {
		if rec.err != nil && w.cur != nil {
			w.cur.failures++
		}
	}
	baseTimeout := pick(t, []time.Duration{2 * time.Second, 10 * time.Second, time.Minute})
	w.maxSusp = pick(t, []time.Duration{time.Hour, baseTimeout / 2, 0, 3 * baseTimeout})

	suspendableClock := re_clock.NewSuspendableClock(w.sim, w.maxSusp, c11Threshold)
	w.rec = &suspRecorder{base: suspendableClock, sim: w.sim}

	handleAllocator := virtual.NewNFSHandleAllocator(&detRand{s: 11})
	logger := &quietLogger{}
	rootAttributesSetter := func(requested virtual.AttributesMask, attributes *virtual.Attributes) {}
	w.root = virtual.NewInMemoryPrepopulatedDirectory(
		virtual.NewHandleAllocatingFileAllocator(
			virtual.NewPoolBackedFileAllocator(pool.EmptyFilePool, logger, rootAttributesSetter, virtual.NoNamedAttributesFactory),
			handleAllocator,
		),
		virtual.NewErrorSymlinkFactory(status.Error(codes.PermissionDenied, "Symlink outside build directory")),
		logger,
		handleAllocator,
		sort.Sort,
		func(string) bool { return false },
		w.sim,
		virtual.CaseSensitiveComponentNormalizer,
		rootAttributesSetter,
		virtual.NoNamedAttributesFactory,
	)
	characterDeviceFactory := virtual.NewHandleAllocatingCharacterDeviceFactory(virtual.BaseCharacterDeviceFactory, handleAllocator.New())
	defaultAttributesSetter := func(requested virtual.AttributesMask, attributes *virtual.Attributes) {
		attributes.SetOwnerUserID(1000)
		attributes.SetOwnerGroupID(1000)
	}
	symlinkFactory := virtual.NewHandleAllocatingSymlinkFactory(virtual.NewBaseSymlinkFactory(defaultAttributesSetter), handleAllocator.New(), path.LocalFormat)
	globalCAS := &fakeCAS{s: w.store}
	batch := 1 + t.Choice(3)
	writer, flusher := re_blobstore.NewBatchedStoreBlobAccess(globalCAS, digest.KeyWithoutInstance, batch, semaphore.NewWeighted(int64(batch)))
	buildDirectory := builder.NewVirtualBuildDirectory(
		w.root,
		re_cas.NewSuspendingDirectoryFetcher(re_cas.NewBlobAccessDirectoryFetcher(globalCAS, 1<<16, 1<<16), w.rec),
		re_blobstore.NewSuspendingBlobAccess(writer, w.rec),
		symlinkFactory,
		characterDeviceFactory,
		handleAllocator,
		defaultAttributesSetter,
		w.sim,
	)
	idleInvoker := cleaner.NewIdleInvoker(func(ctx context.Context) error { return w.root.RemoveAllChildren(false) })
	var nextParallelActionID atomic.Uint64
	creator := builder.NewSharedBuildDirectoryCreator(
		builder.NewCleanBuildDirectoryCreator(builder.NewRootBuildDirectoryCreator(buildDirectory), idleInvoker),
		&nextParallelActionID,
	)
	var be builder.BuildExecutor = builder.NewLocalBuildExecutor(writer, creator, &c11Runner{w: w}, suspendableClock, time.Minute, nil, 1<<16, map[string]string{"PATH": "/bin"}, false)
	be = builder.NewFilePoolStatsBuildExecutor(
		builder.NewTimestampedBuildExecutor(
			builder.NewStorageFlushingBuildExecutor(be, flusher),
			w.sim,
			"{\"worker\":\"w4-c11\"}",
		),
	)
	w.be = builder.NewCachingBuildExecutor(be, &fakeCAS{s: w.store, historical: true}, &fakeAC{s: w.store}, &url.URL{Scheme: "http", Host: "browser.example"})

	// Executions: 1-3, one after the other on the same stack.
	n := 1 + t.Choice(3)
	for i := 0; i < n; i++ {
		x := &c11Exec{id: i, w: w}
		x.timeout = pick(t, []time.Duration{baseTimeout, baseTimeout, baseTimeout / 2, 2 * baseTimeout})
		x.hasInput = t.Bool(2, 3)
		x.output = t.Bool(1, 2)
		x.mayCancel = !w.faultFree && t.Bool(1, 5)
		if t.Bool(1, 4) {
			x.exitCode = int64(1 + t.Choice(3))
		}
		T := x.timeout
		ns := 1 + t.Choice(3)
		for j := 0; j < ns; j++ {
			if x.hasInput && t.Bool(1, 3) {
				x.script = append(x.script, c11Segment{read: true})
				continue
			}
			x.script = append(x.script, c11Segment{compute: pick(t, []time.Duration{T / 4, T / 2, T - time.Nanosecond, T, T + time.Nanosecond, 2 * T, time.Nanosecond, T / 4, T - c11Threshold/2})})
		}
		command := &remoteexecution.Command{Arguments: []string{"/bin/tool", fmt.Sprintf("--exec=%d", i)}}
		if x.output {
			command.OutputPaths = []string{"out.txt"}
		}
		commandDigest := w.store.preload(w.df, mustMarshal(command))
		inputRoot := &remoteexecution.Directory{}
		if x.hasInput {
			fd := w.store.preload(w.df, []byte("input data\n"))
			inputRoot.Files = []*remoteexecution.FileNode{{Name: "in.txt", Digest: fd.GetProto()}}
		}
		inputRootDigest := w.store.preload(w.df, mustMarshal(inputRoot))
		x.action = &remoteexecution.Action{
			CommandDigest:   commandDigest.GetProto(),
			InputRootDigest: inputRootDigest.GetProto(),
			DoNotCache:      t.Bool(1, 3),
			Timeout:         durationpb.New(x.timeout),
		}
		x.digest = computeDigest(w.df, mustMarshal(x.action))
		x.ctx, x.cancel = context.WithCancel(context.Background())
		w.execs = append(w.execs, x)
		r.Logf("%s", x)
	}
	k.Note(fmt.Sprintf("C11 workload: fault-free=%v max-suspension=%s base-timeout=%s executions=%d batch=%d", w.faultFree, w.maxSusp, baseTimeout, n, batch))
	for _, x := range w.execs {
		k.Note(x.String())
	}
	return w
}

// --- scheduling of simulated time ---------------------------------------------------

// frozen reports whether simulated time must stand still: some actor is inside
// or waits for a critical section, or a freshly started goroutine has not run
// yet. Every Suspend/Resume/timer creation therefore happens at one instant.
func (w *c11World) frozen() bool {
	if len(w.k.HeldLocks()) > 0 {
		return true
	}
	lockWaiters, _, seam := w.k.Stuck()
	if len(lockWaiters) > 0 {
		return true
	}
	for _, s := range seam {
		if strings.HasSuffix(s, "@start") || strings.Contains(s, "@exec-") {
			return true
		}
	}
	return false
}

func (w *c11World) events() []simsync.Event {
	evs := w.store.events()
	x := w.cur
	if x == nil || w.frozen() {
		return evs
	}
	// Due timers and context deadlines are delivered exactly at their deadline.
	evs = append(evs, w.sim.ClockEvents(12, 0, nil, nil)...)
	if !w.sim.HasDue() {
		now := w.sim.Global()
		// The next future deadline, as computed by the clock itself.
		var toNext time.Duration
		for _, e := range w.sim.ClockEvents(0, 1, nil, nil) {
			if strings.HasPrefix(e.Key, "advance-to-next ") {
				d, err := time.ParseDuration(strings.TrimPrefix(e.Key, "advance-to-next "))
				if err != nil {
					panic(simsync.HarnessError{Msg: "cannot parse " + e.Key})
				}
				toNext = d
			}
		}
		if toNext > 0 {
			d := toNext
			evs = append(evs, simsync.Event{Key: fmt.Sprintf("advance-to-next %v", d), Weight: 6, Fire: func() { w.sim.Advance(d) }})
		}
		w.store.mu.Lock()
		inFlight := len(w.store.pending)
		w.store.mu.Unlock()
		if inFlight > 0 && !w.stopping {
			// A storage call is in flight: it may take simulated time, but
			// never past the next deadline (timers are never late).
			T := x.timeout
			for _, d := range []time.Duration{time.Nanosecond, c11Threshold / 2, T / 4, T, 3 * T} {
				if toNext > 0 && d >= toNext {
					continue
				}
				d := d
				evs = append(evs, simsync.Event{Key: fmt.Sprintf("advance %v", d), Weight: 2, Fire: func() { w.sim.Advance(d) }})
			}
		}
		_ = now
	}
	if x.mayCancel && !x.callerCancelled && !w.stopping && w.k.FaultsOn {
		evs = append(evs, simsync.Event{Key: "cancel-caller", Weight: 1, Fire: func() {
			w.k.FaultsFired["caller-cancelled"]++
			x.callerCancelled = true
			x.tCancel = w.sim.Global()
			x.cancel()
		}})
	}
	return evs
}

func (w *c11World) loop() {
	k := w.k
	for _, x := range w.execs {
		k.Yield("exec-start")
		w.cur = x
		x.tExec = w.sim.Global()
		request := &remoteworker.DesiredState_Executing{
			ActionDigest:    x.digest.GetProto(),
			Action:          x.action,
			QueuedTimestamp: timestamppb.New(startTime),
			DigestFunction:  remoteexecution.DigestFunction_SHA256,
		}
		updates := make(chan *remoteworker.CurrentState_Executing, 10)
		x.resp = w.be.Execute(x.ctx, w.pool, nil, w.df, request, updates)
		x.returned = true
		k.Yield("exec-end")
		w.cur = nil
	}
}

func (w *c11World) run() {
	k := w.k
	k.AddSource(w.events)
	w.actor = k.Spawn("exec", w.loop)
	k.Run(600 + 300*w.t.Choice(4))
	if k.Failed() {
		return
	}
	k.Note("drain")
	k.FaultsOn = false
	w.stopping = true
	w.store.randomRate = 0
	quiet := false
	for i := 0; i < 60 && !quiet; i++ {
		quiet = k.Run(1000)
		if k.Failed() {
			return
		}
	}
	if !quiet {
		panic(simsync.HarnessError{Msg: "C11 world did not come to rest within 60000 steps"})
	}
	lockWaiters, blocked, seam := k.Stuck()
	if !w.actor.Done() || len(lockWaiters)+len(blocked)+len(seam) > 0 {
		x := w.cur
		if x == nil {
			x = w.execs[len(w.execs)-1]
		}
		w.violate(x, "C11/never-finished", fmt.Sprintf("nothing is enabled any more but the execution has not finished: lock-waiters=%v blocked=%v parked=%v held=%v", lockWaiters, blocked, seam, k.HeldLocks()))
		return
	}
	for _, x := range w.execs {
		x.cancel()
		w.check(x)
	}
	w.r.SimTime = w.sim.Global().Sub(startTime)
	w.r.Count("executions", len(w.execs))
	ran := 0
	for _, x := range w.execs {
		if x.runCalled {
			ran++
		}
	}
	w.r.Count("executions_reaching_run", ran)
	w.r.State(fmt.Sprintf("execs=%d ran=%d maxsusp=%s prep-long=%d", len(w.execs), ran, w.maxSusp, w.prepLong))
	// Non-triviality: the command of at least one execution was started
	// after simulated time had passed during its preparation, or ran into
	// its timeout.
	for _, x := range w.execs {
		if x.runCalled && (x.tRun.After(x.tExec) || (x.cut && x.cutErr == context.DeadlineExceeded)) {
			w.r.NonTrivial = true
		}
	}
}

// --- oracle -------------------------------------------------------------------------

func (w *c11World) check(x *c11Exec) {
	k := w.k
	if x.resp == nil {
		w.violate(x, "C11/no-response", "Execute returned nil")
		return
	}
	code := status.FromProto(x.resp.Status).Code()
	T := x.timeout
	if !x.runCalled {
		k.Probe("run-not-reached")
		if x.failures == 0 && !x.callerCancelled {
			panic(simsync.HarnessError{Msg: "C11: the runner was not called although nothing failed: " + describeResponse(x.resp, nil)})
		}
		if code == codes.DeadlineExceeded {
			w.violate(x, "C11/deadline-without-run", "the action is reported as DEADLINE_EXCEEDED although its command was never started")
		}
		return
	}
	if !x.doneSeen {
		w.violate(x, "C11/run-context-never-released", "Execute returned but the context handed to runner.Run was never cancelled")
		return
	}
	// Preparation: everything between the call of Execute and the call of Run.
	prep := x.tRun.Sub(x.tExec)
	prepU, _ := w.rec.unsuspended(x.tExec, x.tRun)
	if prep > 0 {
		k.Probe("preparation-took-simulated-time")
	}
	if prep >= T {
		k.Probe("preparation-longer-than-timeout")
		w.prepLong++
	}
	if prepU >= T {
		k.Probe("unsuspended-preparation-longer-than-timeout")
	}
	if prepU > 0 {
		k.Probe("unsuspended-preparation-took-time")
	}
	cancelledBeforeRun := x.callerCancelled && !x.tCancel.After(x.tRun)
	// 1. The run context is alive when the command starts.
	if x.errAtStart != nil && !cancelledBeforeRun {
		w.violate(x, "C11/run-context-done-at-start", fmt.Sprintf("the context handed to runner.Run was already done (%v) when Run was called, %s after Execute was called (timeout %s)", x.errAtStart, prep, T))
		return
	}
	// 2. Its deadline is counted from the call of Run.
	if want := x.tRun.Add(T + w.maxSusp); !x.hasDeadline || !x.deadline.Equal(want) {
		w.violate(x, "C11/run-deadline", fmt.Sprintf("the context handed to runner.Run has deadline %s after the start of the world; the command was started at %s with timeout %s and maximum suspension %s, so it must be %s", x.deadline.Sub(startTime), x.tRun.Sub(startTime), T, w.maxSusp, want.Sub(startTime)))
		return
	}
	uDone, stalled := w.rec.unsuspended(x.tRun, x.tDone)
	wallDone := x.tDone.Sub(x.tRun)
	uEnd, _ := w.rec.unsuspended(x.tRun, x.tEnd)
	wallEnd := x.tEnd.Sub(x.tRun)
	external := x.callerCancelled || x.ioError
	if stalled {
		k.Probe("run-overlapped-storage-stall")
	}
	// 3. Who ended the run context, and when.
	deadlineCut := x.cut && x.cutErr == context.DeadlineExceeded
	if x.doneErr == context.DeadlineExceeded {
		k.Probe("run-context-deadline-exceeded")
		budget := uDone > T-c11Threshold && uDone <= T
		if !stalled {
			budget = uDone == T
		}
		wallBound := wallDone == T+w.maxSusp
		switch {
		case budget:
			k.Probe("cut-at-unsuspended-budget")
		case wallBound:
			k.Probe("cut-at-wall-clock-bound")
		case uDone < T:
			w.violate(x, "C11/cut-too-early", fmt.Sprintf("the run context expired after the command had run for %s unsuspended (%s wall clock); timeout %s, maximum suspension %s", uDone, wallDone, T, w.maxSusp))
			return
		default:
			w.violate(x, "C11/cut-too-late", fmt.Sprintf("the run context expired only after the command had run for %s unsuspended (%s wall clock); timeout %s, maximum suspension %s", uDone, wallDone, T, w.maxSusp))
			return
		}
	} else if x.cut && !external {
		w.violate(x, "C11/run-cancelled-without-cause", fmt.Sprintf("the run context was cancelled (%v) after %s although neither the timeout was reached nor the caller cancelled nor an I/O error occurred", x.cutErr, wallDone))
		return
	}
	if x.finished {
		k.Probe("command-finished")
		if uEnd > T || wallEnd > T+w.maxSusp {
			w.violate(x, "C11/timeout-not-enforced", fmt.Sprintf("the command ran to completion for %s unsuspended (%s wall clock) without being cancelled; timeout %s, maximum suspension %s", uEnd, wallEnd, T, w.maxSusp))
			return
		}
	}
	// 4. What the response says.
	switch {
	case deadlineCut && !x.ioError:
		k.Probe("command-cut-by-timeout")
		if code != codes.DeadlineExceeded {
			w.violate(x, "C11/timeout-not-reported", fmt.Sprintf("the command was cancelled by its execution timeout but the response has status %s", code))
			return
		}
	case x.finished:
		if code == codes.DeadlineExceeded {
			w.violate(x, "C11/in-budget-run-reported-as-timeout", fmt.Sprintf("the command finished by itself after %s unsuspended (timeout %s, preparation took %s) but the action is reported as DEADLINE_EXCEEDED", uEnd, T, prep))
			return
		}
		if x.failures == 0 && !x.callerCancelled {
			if code != codes.OK || x.resp.Result.GetExitCode() != int32(x.exitCode) {
				w.violate(x, "C11/in-budget-run-failed", fmt.Sprintf("the command finished by itself within its budget (%s of %s) and nothing else failed, but the response has status %s exit code %d (want OK, %d)", uEnd, T, code, x.resp.Result.GetExitCode(), x.exitCode))
				return
			}
			k.Probe("in-budget-run-ok")
		}
	default:
		if code == codes.DeadlineExceeded && !deadlineCut {
			w.violate(x, "C11/in-budget-run-reported-as-timeout", "the action is reported as DEADLINE_EXCEEDED although the execution timeout did not end the command")
			return
		}
	}
	// 5. virtual_execution_duration is the unsuspended time the command ran.
	vd := x.resp.Result.GetExecutionMetadata().GetVirtualExecutionDuration()
	if vd == nil {
		w.violate(x, "C11/virtual-execution-duration", "the response has no virtual_execution_duration although the command was run under a suspendable clock")
		return
	}
	if got := vd.AsDuration(); got != uDone {
		w.violate(x, "C11/virtual-execution-duration", fmt.Sprintf("virtual_execution_duration is %s, but the command ran for %s unsuspended (%s wall clock; preparation before it took %s, of which %s unsuspended)", got, uDone, wallDone, prep, prepU))
		return
	}
	k.Probe("virtual-execution-duration-checked")
}

// WorldC11 is the entry point registered for C11.
func WorldC11() simrun.World {
	return func(r *simrun.Run) {
		w := newC11World(r)
		w.run()
	}
}
